#!/usr/bin/env python3
"""Regenerates MANIFEST.json from checks.json + manifest_meta.json (keeps it valid at all times)."""
import json, os
ROOT = os.path.dirname(os.path.abspath(__file__))
checks = json.load(open(os.path.join(ROOT, "checks.json")))
meta = json.load(open(os.path.join(ROOT, "manifest_meta.json")))
props = [json.loads(l) for l in open(os.path.join(ROOT, "properties.jsonl")) if l.strip()]
man = {
    "version": 1,
    "setup_cmd": "./check --setup",
    "hooks": meta["hooks"],
    "engines": meta["engines"],
    "checks": [],
    "not_applicable": [],
    "notes": meta["notes"],
}
for p in props:
    pid = p["id"]
    if pid in checks and pid in meta["checks"]:
        m = meta["checks"][pid]
        c = {
            "property_id": pid,
            "quick_cmd": "./check %s quick" % pid,
            "thorough_cmd": "./check %s thorough" % pid,
            "evidence_file": "/verif/evidence/%s.json" % pid,
            "replay_cmd_template": "./check %s --replay {path}" % pid,
            "engine": "harness",
            "level_claimed": {"category": checks[pid]["level"], "text": m["text"], "design_ref": m["design_ref"]},
            "level_note": m["note"],
            "technique": m["technique"],
        }
        man["checks"].append(c)
    else:
        man["not_applicable"].append({"property_id": pid, "reason": meta.get("not_applicable", {}).get(pid, "check not built yet in this round (work in progress); no claim made")})
json.dump(man, open(os.path.join(ROOT, "MANIFEST.json"), "w"), indent=1)
print("checks:", [c["property_id"] for c in man["checks"]], "n/a:", [c["property_id"] for c in man["not_applicable"]])
