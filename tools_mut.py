#!/usr/bin/env python3
"""Dev aid for sensitivity runs: tools_mut.py <repo-file> <old> <new> <ID> [<ID>...]
Applies a textual mutation to /repo (working tree only), runs the quick checks, restores."""
import subprocess, sys, os
if sys.argv[1] == "--patch":
    patch, ids = sys.argv[2], sys.argv[3:]
    r = subprocess.run(["git", "-C", "/repo", "apply", patch], capture_output=True, text=True)
    if r.returncode != 0:
        print("PATCH DOES NOT APPLY", r.stderr); sys.exit(3)
    p = None
else:
    f, old, new, ids = sys.argv[1], sys.argv[2], sys.argv[3], sys.argv[4:]
    p = os.path.join('/repo', f)
    s = open(p).read()
    if old not in s:
        print("MUTATION TARGET NOT FOUND"); sys.exit(3)
    open(p, 'w').write(s.replace(old, new, 1))
try:
    b = subprocess.run("cd /repo && go build ./... ", shell=True, capture_output=True, text=True)
    if b.returncode != 0:
        print("MUTANT DOES NOT COMPILE\n" + b.stderr[-2000:]); sys.exit(3)
    if os.environ.get("MUT_BASELINE"):
        t = subprocess.run("cd /repo && go test -count=1 ./... 2>&1 | tail -8", shell=True, capture_output=True, text=True)
        print("baseline tests:", "FAIL" in t.stdout and "FAILS" or "pass")
    for i in ids:
        r = subprocess.run(["/verif/check", i, "quick"], capture_output=True, text=True)
        lines = [l for l in r.stdout.splitlines() if l.startswith("VIOLATION") or l.startswith(i + " quick") or "evid.go" in l or "INCONCLUSIVE" in l]
        print("%s rc=%d %s" % (i, r.returncode, "CAUGHT" if r.returncode == 1 else "MISSED" if r.returncode == 0 else "INCONCLUSIVE"))
        for l in lines[:4]:
            print("   ", l[:300])
finally:
    if p is None:
        subprocess.run("git -C /repo checkout -- . && git -C /repo clean -fdq", shell=True)
    else:
        open(p, 'w').write(s)
    subprocess.run("rm -rf /verif/replays", shell=True)
