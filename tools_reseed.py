#!/usr/bin/env python3
"""Re-run checks against already vetted seeded changes and update their meta.json.

  tools_reseed.py <seed-id>:<C01,C02> [<seed-id>:<...> ...] [--tier quick]

Applies /verif/seeded/<seed-id>/patch.diff to /repo's working tree, runs the checks, restores /repo.
"""
import json, os, subprocess, sys, time, shutil

def sh(cmd, cwd=None, timeout=3600):
    p = subprocess.run(cmd, shell=True, cwd=cwd, stdout=subprocess.PIPE, stderr=subprocess.STDOUT, text=True, timeout=timeout)
    return p.returncode, p.stdout

def main():
    tier = "quick"
    args = [a for a in sys.argv[1:]]
    if "--tier" in args:
        tier = args[args.index("--tier") + 1]
        del args[args.index("--tier"):args.index("--tier") + 2]
    for a in args:
        seed, checks = a.split(":")
        d = os.path.join("/verif/seeded", seed)
        rc, out = sh("git -C /repo status --porcelain")
        if out.strip():
            print("/repo not clean"); return 2
        rc, out = sh("git -C /repo apply %s/patch.diff" % d)
        if rc != 0:
            print(seed, "patch does not apply", out); continue
        results = {}
        try:
            for c in checks.split(","):
                t0 = time.time()
                rc, out = sh("/verif/check %s %s" % (c, tier), cwd="/verif")
                line = [l for l in out.splitlines() if l.startswith("VIOLATION") or "evid.go" in l or l.startswith("KNOWN")]
                results[c] = {"exit": rc, "verdict": "caught" if rc == 1 else "missed" if rc == 0 else "inconclusive", "wall_s": round(time.time() - t0, 1),
                              "detail": [l.strip()[:300] for l in line[:3]]}
                print(seed, c, results[c]["verdict"], (line[1:2] or line[:1] or [""])[0][:240], flush=True)
        finally:
            sh("git -C /repo checkout -- . && git -C /repo clean -fdq")
            shutil.rmtree("/verif/replays", ignore_errors=True)
        mp = os.path.join(d, "meta.json")
        meta = json.load(open(mp))
        hist = meta.setdefault("history", [])
        if isinstance(hist, str):
            hist = meta["history"] = [hist]
        for c, r in results.items():
            prev = meta.get("checks_run", {}).get(c)
            if prev and prev.get("verdict") != r["verdict"]:
                hist.append("%s: %s with the checks as first run, %s after strengthening" % (c, prev["verdict"], r["verdict"]))
            meta.setdefault("checks_run", {})[c] = r
        json.dump(meta, open(mp, "w"), indent=1)
    return 0

if __name__ == "__main__":
    sys.exit(main())
