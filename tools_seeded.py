#!/usr/bin/env python3
"""Vet an independently produced breaking change and record it under /verif/seeded/.

  tools_seeded.py <src-dir> <seed-id> <property-id> [--checks C01,C02,...] [--tier quick]

<src-dir> holds patch.diff, a demonstration *_test.go (first lines contain `// path: <repo-relative path>`)
and README.md. Steps:
  1. scratch worktree of /repo HEAD under /tmp/sv/: demo passes on the clean tree; patch applies;
     build + vet + the repository's own tests pass with the patch; demo fails with the patch.
  2. the patch is applied to /repo's working tree, the named checks (default: the property's own) are
     run, /repo is restored.
  3. /verif/seeded/<seed-id>/ gets patch.diff, the demo, README.md and meta.json.
"""
import json, os, re, shutil, subprocess, sys, glob, time

def sh(cmd, cwd=None, timeout=1800):
    p = subprocess.run(cmd, shell=True, cwd=cwd, stdout=subprocess.PIPE, stderr=subprocess.STDOUT, text=True, timeout=timeout)
    return p.returncode, p.stdout

def main():
    src, seed_id, prop = sys.argv[1], sys.argv[2], sys.argv[3]
    checks = [prop]
    tier = "quick"
    if "--checks" in sys.argv:
        checks = sys.argv[sys.argv.index("--checks") + 1].split(",")
    if "--tier" in sys.argv:
        tier = sys.argv[sys.argv.index("--tier") + 1]
    patch = os.path.join(src, "patch.diff")
    demos = [f for f in glob.glob(os.path.join(src, "*_test.go"))]
    if not os.path.exists(patch) or not demos:
        print("missing patch.diff or demo test in", src); return 2
    meta = {"seed_id": seed_id, "property": prop, "source": "fresh sub-agent given only the property text and a scratch worktree", "steps": []}
    wt = "/tmp/sv/" + seed_id
    sh("git -C /repo worktree remove --force %s" % wt)
    shutil.rmtree(wt, ignore_errors=True)
    os.makedirs("/tmp/sv", exist_ok=True)
    rc, out = sh("git -C /repo worktree add -q --detach %s HEAD" % wt)
    if rc != 0:
        print(out); return 2
    ok = True
    try:
        demo_targets = []
        for d in demos:
            head = open(d).read(2000)
            m = re.search(r"//\s*path:\s*(\S+)", head)
            rel = m.group(1) if m else None
            if rel is None:
                print("demo without path comment:", d); return 2
            rel = rel.lstrip("/")
            if rel.startswith("tmp/wt/"):
                rel = "/".join(rel.split("/")[3:])
            demo_targets.append((d, rel))
            os.makedirs(os.path.dirname(os.path.join(wt, rel)), exist_ok=True)
            shutil.copy(d, os.path.join(wt, rel))
        pkgs = sorted(set("./" + os.path.dirname(rel) for _, rel in demo_targets))
        names = []
        for d, rel in demo_targets:
            names += re.findall(r"^func (Test\w+)\(", open(d).read(), re.M)
        run = "-run '^(%s)$'" % "|".join(names) if names else ""
        demo_cmd = "go test -count=1 %s %s" % (run, " ".join(pkgs))
        rc, out = sh(demo_cmd, cwd=wt)
        meta["steps"].append({"what": "demo on clean tree", "cmd": demo_cmd, "exit": rc, "tail": out[-600:]})
        if rc != 0:
            print("DEMO FAILS ON CLEAN TREE"); ok = False
        rc, out = sh("git apply %s" % os.path.abspath(patch), cwd=wt)
        if rc != 0:
            print("PATCH DOES NOT APPLY", out); meta["steps"].append({"what": "apply", "exit": rc, "tail": out[-400:]}); ok = False
        else:
            rc, out = sh("go build ./... && go vet ./...", cwd=wt)
            meta["steps"].append({"what": "build+vet with patch", "exit": rc, "tail": out[-400:]})
            if rc != 0:
                print("BUILD/VET FAILS"); ok = False
            # existing suite: move demos away
            for d, rel in demo_targets:
                os.rename(os.path.join(wt, rel), os.path.join(wt, rel) + ".off")
            rc, out = sh("go test -count=1 ./...", cwd=wt)
            meta["steps"].append({"what": "existing test suite with patch", "cmd": "go test -count=1 ./...", "exit": rc, "tail": out[-600:]})
            if rc != 0:
                print("EXISTING TESTS FAIL WITH PATCH"); ok = False
            for d, rel in demo_targets:
                os.rename(os.path.join(wt, rel) + ".off", os.path.join(wt, rel))
            fails = 0
            for i in range(3):
                rc, out = sh(demo_cmd, cwd=wt)
                if rc != 0:
                    fails += 1
            meta["steps"].append({"what": "demo with patch (3 runs)", "cmd": demo_cmd, "failed_runs": fails, "tail": out[-600:]})
            if fails == 0:
                print("DEMO DOES NOT FAIL WITH PATCH"); ok = False
    finally:
        sh("git -C /repo worktree remove --force %s" % wt)
        shutil.rmtree(wt, ignore_errors=True)
    meta["vetted"] = ok
    results = {}
    if ok:
        rc, out = sh("git -C /repo status --porcelain")
        if out.strip():
            print("/repo not clean"); return 2
        rc, out = sh("git -C /repo apply %s" % os.path.abspath(patch))
        try:
            for c in checks:
                t0 = time.time()
                rc, out = sh("/verif/check %s %s" % (c, tier), cwd="/verif", timeout=3600)
                line = [l for l in out.splitlines() if l.startswith("VIOLATION") or "evid.go" in l or l.startswith("KNOWN")]
                results[c] = {"exit": rc, "verdict": "caught" if rc == 1 else "missed" if rc == 0 else "inconclusive", "wall_s": round(time.time() - t0, 1),
                              "detail": [l.strip()[:300] for l in line[:3]]}
                print(c, results[c]["verdict"], (line[1:2] or line[:1] or [""])[0][:220])
        finally:
            sh("git -C /repo checkout -- . && git -C /repo clean -fdq")
            shutil.rmtree("/verif/replays", ignore_errors=True)
    meta["checks_run"] = results
    meta["tier"] = tier
    dst = os.path.join("/verif/seeded", seed_id)
    os.makedirs(dst, exist_ok=True)
    shutil.copy(patch, os.path.join(dst, "patch.diff"))
    for d, rel in demo_targets:
        shutil.copy(d, os.path.join(dst, os.path.basename(d) + ".txt"))  # .txt: not compiled with the harness
    if os.path.exists(os.path.join(src, "README.md")):
        shutil.copy(os.path.join(src, "README.md"), os.path.join(dst, "README.md"))
    prev = {}
    mp = os.path.join(dst, "meta.json")
    if os.path.exists(mp):
        prev = json.load(open(mp))
        pr = prev.get("checks_run", {})
        pr.update(results)
        meta["checks_run"] = pr
    json.dump(meta, open(mp, "w"), indent=1)
    print("vetted:", ok, "->", dst)
    return 0

if __name__ == "__main__":
    sys.exit(main())
