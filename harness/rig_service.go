package harness

// The scripted service: a hand-built grpc.ServiceDesc whose handlers delegate to closures
// supplied per case. It follows exactly the calling conventions of protoc-gen-go-grpc output
// (decode into a fresh message, route through the interceptor when one is given).

import (
	"context"

	"google.golang.org/grpc"

	pb "github.com/fullstorydev/grpchan/grpchantesting"
)

const (
	svcName       = "verif.Svc"
	mUnary        = "/verif.Svc/Unary"
	mClientStream = "/verif.Svc/ClientStream"
	mServerStream = "/verif.Svc/ServerStream"
	mBidi         = "/verif.Svc/Bidi"
)

// RPC kinds.
const (
	kUnary        = "unary"
	kClientStream = "client-stream"
	kServerStream = "server-stream"
	kBidi         = "bidi"
)

var allKinds = []string{kUnary, kClientStream, kServerStream, kBidi}

func methodOf(kind string) string {
	switch kind {
	case kUnary:
		return mUnary
	case kClientStream:
		return mClientStream
	case kServerStream:
		return mServerStream
	default:
		return mBidi
	}
}

func streamDescOf(kind string) *grpc.StreamDesc {
	switch kind {
	case kClientStream:
		return &grpc.StreamDesc{StreamName: "ClientStream", ClientStreams: true}
	case kServerStream:
		return &grpc.StreamDesc{StreamName: "ServerStream", ServerStreams: true}
	default:
		return &grpc.StreamDesc{StreamName: "Bidi", ClientStreams: true, ServerStreams: true}
	}
}

// Service is the handler object registered with every carrier.
type Service struct {
	// Unary handles unary calls in the usual typed way.
	Unary func(ctx context.Context, req *pb.Message) (*pb.Message, error)
	// UnaryRaw, when set, replaces the whole generated-style unary handler.
	UnaryRaw func(ctx context.Context, dec func(interface{}) error, interceptor grpc.UnaryServerInterceptor) (interface{}, error)
	// Stream handles the three streaming kinds.
	Stream func(kind string, stream grpc.ServerStream) error
}

type svcIface interface{}

func unaryHandler(srv interface{}, ctx context.Context, dec func(interface{}) error, interceptor grpc.UnaryServerInterceptor) (interface{}, error) {
	s := srv.(*Service)
	if s.UnaryRaw != nil {
		return s.UnaryRaw(ctx, dec, interceptor)
	}
	in := new(pb.Message)
	if err := dec(in); err != nil {
		return nil, err
	}
	if interceptor == nil {
		return s.Unary(ctx, in)
	}
	info := &grpc.UnaryServerInfo{Server: srv, FullMethod: mUnary}
	handler := func(ctx context.Context, req interface{}) (interface{}, error) {
		return s.Unary(ctx, req.(*pb.Message))
	}
	return interceptor(ctx, in, info, handler)
}

func streamHandler(kind string) grpc.StreamHandler {
	return func(srv interface{}, stream grpc.ServerStream) error {
		return srv.(*Service).Stream(kind, stream)
	}
}

// newServiceDesc returns a fresh descriptor (so that a case may decorate or mutate it).
func newServiceDesc() *grpc.ServiceDesc {
	return &grpc.ServiceDesc{
		ServiceName: svcName,
		HandlerType: (*svcIface)(nil),
		Methods: []grpc.MethodDesc{
			{MethodName: "Unary", Handler: unaryHandler},
		},
		Streams: []grpc.StreamDesc{
			{StreamName: "ClientStream", Handler: streamHandler(kClientStream), ClientStreams: true},
			{StreamName: "ServerStream", Handler: streamHandler(kServerStream), ServerStreams: true},
			{StreamName: "Bidi", Handler: streamHandler(kBidi), ClientStreams: true, ServerStreams: true},
		},
		Metadata: "verif.proto",
	}
}
