package harness

import (
	"encoding/json"
	"os"
	"testing"
)

// TestReplay re-executes the case stored in $VERIF_REPLAY, bypassing rapid.
func TestReplay(t *testing.T) {
	p := os.Getenv("VERIF_REPLAY")
	if p == "" {
		t.Skip("VERIF_REPLAY not set")
	}
	b, err := os.ReadFile(p)
	if err != nil {
		t.Fatal(err)
	}
	var rf replayFile
	if err := json.Unmarshal(b, &rf); err != nil {
		t.Fatal(err)
	}
	fn := replayers[rf.Property]
	if fn == nil {
		t.Fatalf("no replayer for %q", rf.Property)
	}
	reps := envInt("VERIF_REPLAY_REPS", 1)
	for i := 0; i < reps; i++ {
		o, err := fn(rf.Case)
		if err != nil {
			t.Fatal(err)
		}
		r := rec(rf.Property)
		r.record(rf.Case, o)
		if o.Fail != "" {
			r.writeFail(rf.Case, o)
			t.Fatalf("%s: %s", rf.Property, o.Fail)
		}
	}
}
