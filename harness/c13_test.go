package harness

// C13 — per-RPC credentials never cross an insecure transport; peer info is reported.

import (
	"context"
	"crypto/ecdsa"
	"crypto/elliptic"
	"crypto/rand"
	"crypto/tls"
	"crypto/x509"
	"crypto/x509/pkix"
	"errors"
	"fmt"
	"math/big"
	"net"
	"net/http"
	"net/http/httptest"
	"net/url"
	"sort"
	"strings"
	"sync"
	"sync/atomic"
	"testing"
	"time"

	"google.golang.org/grpc"
	"google.golang.org/grpc/credentials"
	"google.golang.org/grpc/metadata"
	"google.golang.org/grpc/peer"
	"google.golang.org/grpc/status"
	"pgregory.net/rapid"

	pb "github.com/fullstorydev/grpchan/grpchantesting"
	"github.com/fullstorydev/grpchan/httpgrpc"
)

type c13Case struct {
	Carrier  string // http | httpmux | inproc
	TLS      bool   // https base URL (HTTP carriers)
	Creds    string // none | plain | secure | error
	Stream   bool
	PeerOpt  int // number of grpc.Peer options
	HdrOpt   bool
	CredMD   map[string]string `json:",omitempty"`
	CallerMD MDSpec            `json:",omitempty"`
	Fail     uint32            `json:",omitempty"` // the handler fails with this code (the call still reached the server)
	Append   bool              `json:",omitempty"` // the caller attaches part of its metadata with AppendToOutgoingContext
	// Host: how the base URL names the server: "" = as httptest gives it (127.0.0.1:port), "ipv6" = [::1]:port,
	// "name" = example.com:port, "noport" = example.com (default port); the connection always goes to the
	// real test server
	Host string `json:",omitempty"`
	// First: an earlier grpc.PerRPCCredentials option precedes the one described by Creds ("plain" / "secure";
	// its metadata is zz-first: 1). The later option is the one in force (as with grpc-go); whatever is done
	// with the earlier one, a credential that requires transport security never crosses plain http.
	First string `json:",omitempty"`
	// FwdCred: the credential's metadata includes x-forwarded-for
	FwdCred bool `json:",omitempty"`
	// ReusePeer: the peer.Peer variables given to grpc.Peer were filled by an earlier call over another
	// (TLS) connection; the option reports this call's peer, nothing of the previous one
	ReusePeer bool `json:",omitempty"`
	// CtxPeer: the caller's context already carries a peer (the call is made from inside another handler, with that
	// handler's context): it says who called the caller, not who is calling now
	CtxPeer bool `json:",omitempty"`
	// ClientCert (https): the client presents a certificate, which the server verifies (mutual TLS): the handler's
	// TLS info carries it, and the chains it was verified through
	ClientCert bool `json:",omitempty"`
	// ErrStale (Creds "error"): the failing credential returns its cached (stale) metadata next to the error
	ErrStale bool `json:",omitempty"`
	// Redirect (https): the TLS endpoint answers every request with a 307 redirect to the plain-http server (a
	// TLS-terminating gateway that builds absolute plain-scheme URLs): whatever becomes of the call, nothing of a
	// credential that requires transport security ever arrives over plain http
	Redirect bool `json:",omitempty"`
}

type testCreds struct {
	md     map[string]string
	stale  map[string]string
	secure bool
	err    error
	calls  atomic.Int32
}

func (c *testCreds) GetRequestMetadata(ctx context.Context, uri ...string) (map[string]string, error) {
	c.calls.Add(1)
	if c.err != nil {
		// (with ErrStale: together with what it had cached - the error is what counts)
		return c.stale, c.err
	}
	return c.md, nil
}
func (c *testCreds) RequireTransportSecurity() bool { return c.secure }

// switchHandler lets long-lived test servers serve one case at a time.
type switchHandler struct {
	mu     sync.RWMutex
	h      http.Handler
	remote string // r.RemoteAddr of the last request: what the connection really is
	count  int    // requests seen since the case began
}

func (s *switchHandler) ServeHTTP(w http.ResponseWriter, r *http.Request) {
	s.mu.Lock()
	h := s.h
	s.remote = r.RemoteAddr
	s.count++
	s.mu.Unlock()
	if h == nil {
		http.Error(w, "no case active", 503)
		return
	}
	h.ServeHTTP(w, r)
}

var c13SessionCache = tls.NewLRUClientSessionCache(16)

var (
	c13Once    sync.Once
	c13Plain   *httptest.Server
	c13TLS     *httptest.Server
	c13Switch  = &switchHandler{}
	c13Serial  sync.Mutex
	errC13Cred = errors.New("credential store unavailable")
)

var c13SessionCacheCert = tls.NewLRUClientSessionCache(8)

var (
	c13ClientCert tls.Certificate   // a client certificate the TLS server accepts (mutual TLS when presented)
	c13ClientLeaf *x509.Certificate // its leaf
)

func c13Servers() {
	c13Once.Do(func() {
		c13Plain = httptest.NewServer(c13Switch)
		// the TLS server verifies a client certificate if one is presented (its CA is made here)
		caKey, err := ecdsa.GenerateKey(elliptic.P256(), rand.Reader)
		if err != nil {
			panic(err)
		}
		caTmpl := &x509.Certificate{SerialNumber: big.NewInt(1), Subject: pkix.Name{CommonName: "verif test CA"}, NotBefore: time.Now().Add(-time.Hour), NotAfter: time.Now().Add(240 * time.Hour),
			IsCA: true, BasicConstraintsValid: true, KeyUsage: x509.KeyUsageCertSign}
		caDER, err := x509.CreateCertificate(rand.Reader, caTmpl, caTmpl, &caKey.PublicKey, caKey)
		if err != nil {
			panic(err)
		}
		caCert, _ := x509.ParseCertificate(caDER)
		clKey, _ := ecdsa.GenerateKey(elliptic.P256(), rand.Reader)
		clTmpl := &x509.Certificate{SerialNumber: big.NewInt(2), Subject: pkix.Name{CommonName: "verif-client"}, NotBefore: time.Now().Add(-time.Hour), NotAfter: time.Now().Add(240 * time.Hour),
			KeyUsage: x509.KeyUsageDigitalSignature, ExtKeyUsage: []x509.ExtKeyUsage{x509.ExtKeyUsageClientAuth}}
		clDER, err := x509.CreateCertificate(rand.Reader, clTmpl, caCert, &clKey.PublicKey, caKey)
		if err != nil {
			panic(err)
		}
		c13ClientLeaf, _ = x509.ParseCertificate(clDER)
		c13ClientCert = tls.Certificate{Certificate: [][]byte{clDER}, PrivateKey: clKey, Leaf: c13ClientLeaf}
		pool := x509.NewCertPool()
		pool.AddCert(caCert)
		c13TLS = httptest.NewUnstartedServer(c13Switch)
		c13TLS.TLS = &tls.Config{ClientAuth: tls.VerifyClientCertIfGiven, ClientCAs: pool}
		c13TLS.StartTLS()
	})
}

type countingRT struct {
	rt http.RoundTripper
	n  atomic.Int32
}

func (c *countingRT) RoundTrip(r *http.Request) (*http.Response, error) {
	c.n.Add(1)
	return c.rt.RoundTrip(r)
}

func propC13(c c13Case) *Outcome {
	o := &Outcome{}
	o.class("carrier=%s/tls=%v/creds=%s/stream=%v", c.Carrier, c.TLS, c.Creds, c.Stream)
	o.NonTrivial = c.Creds != "none" || c.TLS
	c13Serial.Lock()
	defer c13Serial.Unlock()

	var mu sync.Mutex
	var inMD metadata.MD
	var hPeer *peer.Peer
	runs := 0
	record := func(ctx context.Context) {
		mu.Lock()
		defer mu.Unlock()
		runs++
		md, _ := metadata.FromIncomingContext(ctx)
		inMD = md.Copy()
		hPeer, _ = peer.FromContext(ctx)
	}
	svc := &Service{
		Unary: func(ctx context.Context, req *pb.Message) (*pb.Message, error) {
			record(ctx)
			grpc.SetHeader(ctx, metadata.Pairs("zz-h", "1"))
			if c.Fail != 0 {
				return nil, statusOfCode(c.Fail)
			}
			return &pb.Message{}, nil
		},
		Stream: func(kind string, stream grpc.ServerStream) error {
			record(stream.Context())
			stream.SetHeader(metadata.Pairs("zz-h", "1"))
			for stream.RecvMsg(new(pb.Message)) == nil {
			}
			return statusOfCode(c.Fail)
		},
	}
	var conn grpc.ClientConnInterface
	var crt *countingRT
	var plainArrivals atomic.Int32
	bareTransport := false
	wantAddr := ""
	if c.Carrier == cInproc {
		car := newCarrier(cInproc, newServiceDesc(), svc, carrierOpts{})
		conn = car.Conn
	} else {
		c13Servers()
		h := newHTTPHandlerOnly(c.Carrier, newServiceDesc(), svc)
		if c.Redirect {
			o.class("tls-endpoint-redirects-to-plain-http")
			inner := h
			h = http.HandlerFunc(func(w http.ResponseWriter, r *http.Request) {
				if r.TLS != nil {
					http.Redirect(w, r, c13Plain.URL+r.URL.Path, http.StatusTemporaryRedirect)
					return
				}
				plainArrivals.Add(1)
				inner.ServeHTTP(w, r)
			})
		}
		c13Switch.mu.Lock()
		c13Switch.h = h
		c13Switch.count = 0
		c13Switch.mu.Unlock()
		defer func() {
			c13Switch.mu.Lock()
			c13Switch.h = nil
			c13Switch.mu.Unlock()
		}()
		srv := c13Plain
		if c.TLS {
			srv = c13TLS
		}
		u, _ := url.Parse(srv.URL)
		wantAddr = u.Host
		rt := srv.Client().Transport
		if c.TLS && c.ClientCert {
			o.class("mutual-tls")
			tr := rt.(*http.Transport).Clone()
			tr.TLSClientConfig = tr.TLSClientConfig.Clone()
			tr.TLSClientConfig.Certificates = []tls.Certificate{c13ClientCert}
			tr.DisableKeepAlives = true
			defer tr.CloseIdleConnections()
			rt = tr
		}
		if c.Host != "" {
			o.class("base-url-host=%s", c.Host)
			real := u.Host
			_, port, _ := net.SplitHostPort(real)
			defPort := "80"
			if c.TLS {
				defPort = "443"
			}
			switch c.Host {
			case "ipv6":
				u.Host, wantAddr = "[::1]:"+port, net.JoinHostPort("::1", port)
			case "name":
				u.Host, wantAddr = "example.com:"+port, "example.com:"+port
			default:
				u.Host, wantAddr = "example.com", "example.com:"+defPort
			}
			tr := rt.(*http.Transport).Clone()
			tr.DialContext = func(ctx context.Context, network, _ string) (net.Conn, error) {
				return (&net.Dialer{}).DialContext(ctx, network, real)
			}
			if c.TLS {
				// a client that resumes TLS sessions: every case dials anew, all share one session cache, so
				// from the second such case on the handshake is an abbreviated one - it is TLS all the same
				tr.TLSClientConfig = tr.TLSClientConfig.Clone()
				tr.TLSClientConfig.ClientSessionCache = c13SessionCache
				if c.ClientCert {
					// (sessions made with and without a client certificate are different things to resume)
					tr.TLSClientConfig.ClientSessionCache = c13SessionCacheCert
				}
				tr.DisableKeepAlives = true
			} else {
				// a transport that could also dial TLS by itself; for http:// URLs net/http never uses this
				tr.DialTLSContext = func(ctx context.Context, network, addr string) (net.Conn, error) {
					return nil, errors.New("harness: DialTLSContext used for a plain-http URL")
				}
			}
			defer tr.CloseIdleConnections()
			rt = tr
		}
		crt = &countingRT{rt: rt}
		conn = &httpgrpc.Channel{Transport: crt, BaseURL: u}
		if c.Host != "" && !c.TLS {
			// the channel is given the *http.Transport itself (requests are counted at the server instead)
			crt = nil
			bareTransport = true
			conn = &httpgrpc.Channel{Transport: rt, BaseURL: u}
		}
	}
	var creds *testCreds
	var opts []grpc.CallOption
	switch c.Creds {
	case "plain":
		creds = &testCreds{md: c.CredMD}
	case "secure":
		creds = &testCreds{md: c.CredMD, secure: true}
	case "error":
		creds = &testCreds{err: errC13Cred}
		if c.ErrStale {
			o.class("credential-error-with-stale-metadata")
			creds.stale = map[string]string{"authorization": "Bearer expired"}
		}
	}
	if creds != nil {
		if c.First != "" {
			o.class("two-credential-options/first=%s", c.First)
			opts = append(opts, grpc.PerRPCCredentials(&testCreds{md: map[string]string{"zz-first": "1"}, secure: c.First == "secure"}))
		}
		opts = append(opts, grpc.PerRPCCredentials(creds))
	}
	peers := make([]peer.Peer, c.PeerOpt)
	for i := range peers {
		if c.ReusePeer {
			peers[i] = peer.Peer{Addr: memAddr("198.51.100.1:443"), AuthInfo: credentials.TLSInfo{CommonAuthInfo: credentials.CommonAuthInfo{SecurityLevel: credentials.PrivacyAndIntegrity}}}
		}
		opts = append(opts, grpc.Peer(&peers[i]))
	}
	var hdr metadata.MD
	if c.HdrOpt {
		opts = append(opts, grpc.Header(&hdr))
	}
	ctx, cancel := context.WithCancel(context.Background())
	defer cancel()
	if len(c.CallerMD) > 0 {
		if c.Append {
			half := len(c.CallerMD) / 2
			if half > 0 {
				ctx = metadata.NewOutgoingContext(ctx, c.CallerMD[:half].MD())
			}
			var kv []string
			for _, p := range c.CallerMD[half:] {
				kv = append(kv, p.K, string(p.V))
			}
			ctx = metadata.AppendToOutgoingContext(ctx, kv...)
		} else {
			ctx = metadata.NewOutgoingContext(ctx, c.CallerMD.MD())
		}
	}
	if c.CtxPeer {
		o.class("caller-context-carries-a-peer")
		ctx = peer.NewContext(ctx, &peer.Peer{Addr: &net.TCPAddr{IP: net.IPv4(198, 51, 100, 23), Port: 4444}, AuthInfo: credentials.TLSInfo{}})
	}
	var err error
	stall := guard("call", func() {
		if c.Stream {
			var cs grpc.ClientStream
			cs, err = conn.NewStream(ctx, streamDescOf(kBidi), mBidi, opts...)
			if err == nil {
				cs.CloseSend()
				for i := 0; i < 3; i++ {
					if err = cs.RecvMsg(new(pb.Message)); err != nil {
						break
					}
				}
				if fmt.Sprint(err) == "EOF" {
					err = nil
				}
			}
		} else {
			err = conn.Invoke(ctx, mUnary, &pb.Message{}, new(pb.Message), opts...)
		}
	})
	if stall != "" {
		return o.failf("stall: %s", stall)
	}
	if c.Redirect {
		o.Observed = map[string]interface{}{"err": errStr(err), "requests_that_reached_the_plain_server": plainArrivals.Load()}
		if n := plainArrivals.Load(); n > 0 {
			return o.failf("%s over https with credentials that require transport security, endpoint answered 307 to an http:// location: %d request(s) went on to the plain-http server", c.Carrier, n)
		}
		if err == nil {
			return o.failf("%s: the endpoint answered with a redirect, the call is reported as success", c.Carrier)
		}
		return o
	}
	// the credentials' metadata goes into the request, not into the caller's context: what the caller attached
	// is what its context still says, whatever the outcome of the call
	{
		after, _ := metadata.FromOutgoingContext(ctx)
		want := metadata.MD{}
		for _, p := range c.CallerMD {
			k := strings.ToLower(p.K)
			want[k] = append(want[k], string(p.V))
		}
		ok, why := mdContains(after, want)
		if ok && len(after) != len(want) {
			ok, why = false, fmt.Sprintf("keys %v, attached %v", after, want)
		}
		if !ok {
			return o.failf("%s (creds=%s): the caller's own outgoing metadata is different after the call: %s", c.Carrier, c.Creds, why)
		}
	}
	mu.Lock()
	defer mu.Unlock()
	nreq := int32(-1)
	if crt != nil {
		nreq = crt.n.Load()
	} else if bareTransport {
		c13Switch.mu.RLock()
		nreq = int32(c13Switch.count)
		c13Switch.mu.RUnlock()
	}
	o.Observed = map[string]interface{}{"err": errStr(err), "requests": nreq, "handler_runs": runs, "in_md": inMD, "peers": fmt.Sprint(peers), "handler_peer": fmt.Sprint(hPeer)}
	secureChannel := c.Carrier == cInproc || c.TLS
	switch {
	case c.Creds == "secure" && !secureChannel:
		if err == nil {
			return o.failf("credentials requiring transport security over plain http: call succeeded")
		}
		if nreq != 0 || runs != 0 {
			return o.failf("credentials requiring transport security over plain http: %d request(s) issued, handler ran %d times", nreq, runs)
		}
		if creds.calls.Load() != 0 {
			// asking the credentials for their metadata is harmless only if nothing is sent; still note it
			o.class("insecure: GetRequestMetadata consulted")
		}
		return o
	case c.Creds == "error":
		if err == nil {
			return o.failf("credentials returned an error, call succeeded")
		}
		if (crt != nil && nreq != 0) || runs != 0 {
			return o.failf("credentials returned an error: %d request(s) issued, handler ran %d times", nreq, runs)
		}
		if !strings.Contains(err.Error(), errC13Cred.Error()) {
			return o.failf("credentials returned %q, call failed with %v", errC13Cred, err)
		}
		return o
	}
	if c.Fail != 0 {
		if uint32(status.Code(err)) != c.Fail {
			return o.failf("handler failed with code %d, call returned %v", c.Fail, err)
		}
	} else if err != nil {
		return o.failf("call failed: %v", err)
	}
	if runs != 1 {
		return o.failf("handler ran %d times", runs)
	}
	if c.First == "secure" && !secureChannel && len(inMD["zz-first"]) > 0 {
		return o.failf("metadata of a credential that requires transport security (zz-first) reached the handler over plain http")
	}
	// merged metadata: per key the multiset union, each source's order preserved
	caller := c.CallerMD.MD()
	keys := map[string]bool{}
	for k := range caller {
		keys[k] = true
	}
	// metadata keys are case-insensitive: a credential may spell its key "Authorization"
	credMD := map[string][]string{}
	if c.Creds == "plain" || c.Creds == "secure" {
		for k, v := range c.CredMD {
			credMD[strings.ToLower(k)] = append(credMD[strings.ToLower(k)], v)
		}
	}
	for k := range credMD {
		keys[k] = true
	}
	for k := range keys {
		want := append([]string{}, caller[k]...)
		want = append(want, credMD[k]...)
		got := append([]string{}, inMD[k]...)
		sw, sg := append([]string{}, want...), append([]string{}, got...)
		sort.Strings(sw)
		sort.Strings(sg)
		if strings.Join(sw, "\x00") != strings.Join(sg, "\x00") || len(sw) != len(sg) {
			return o.failf("handler metadata key %q = %q, want the union of caller %q and credential %q", k, got, caller[k], credMD[k])
		}
		// caller's own order preserved
		idx := 0
		for _, g := range got {
			if idx < len(caller[k]) && g == caller[k][idx] {
				idx++
			}
		}
		if idx != len(caller[k]) {
			return o.failf("handler metadata key %q = %q does not keep the caller's order %q", k, got, caller[k])
		}
	}
	if c.HdrOpt && c.Fail == 0 {
		if v := hdr.Get("zz-h"); len(v) != 1 {
			return o.failf("grpc.Header option: zz-h = %q", v)
		}
	}
	// peer, client side
	for i, p := range peers {
		if p.Addr == nil {
			return o.failf("grpc.Peer option %d not set", i)
		}
		if c.Carrier == cInproc {
			if p.Addr.Network() != "inproc" {
				return o.failf("in-process peer network %q", p.Addr.Network())
			}
			continue
		}
		if p.Addr.String() != wantAddr {
			return o.failf("grpc.Peer option %d address %q, server is %q", i, p.Addr.String(), wantAddr)
		}
		ti, isTLS := p.AuthInfo.(credentials.TLSInfo)
		if c.TLS && (!isTLS || !ti.State.HandshakeComplete) {
			return o.failf("https, stream=%v: grpc.Peer option %d AuthInfo = %#v, want credentials.TLSInfo with a completed handshake", c.Stream, i, p.AuthInfo)
		}
		if !c.TLS && p.AuthInfo != nil {
			return o.failf("http: grpc.Peer option %d AuthInfo = %#v, want none", i, p.AuthInfo)
		}
	}
	// peer, handler side
	if hPeer == nil || hPeer.Addr == nil {
		return o.failf("handler context has no peer")
	}
	if c.Carrier == cInproc {
		if hPeer.Addr.Network() != "inproc" {
			return o.failf("handler peer network %q (address %v; the caller's context carried a peer of its own: %v)", hPeer.Addr.Network(), hPeer.Addr, c.CtxPeer)
		}
		if hPeer.AuthInfo != nil && hPeer.AuthInfo.AuthType() == "tls" {
			return o.failf("in-process handler peer claims TLS auth info (the caller's context carried a peer of its own: %v)", c.CtxPeer)
		}
		return o
	}
	if hPeer.Addr.String() == "" {
		return o.failf("handler peer address empty")
	}
	c13Switch.mu.RLock()
	remote := c13Switch.remote
	c13Switch.mu.RUnlock()
	if hPeer.Addr.String() != remote {
		return o.failf("handler peer address %q, the connection's remote address is %q", hPeer.Addr.String(), remote)
	}
	ti, isTLS := hPeer.AuthInfo.(credentials.TLSInfo)
	if c.TLS && (!isTLS || !ti.State.HandshakeComplete) {
		return o.failf("https: handler peer AuthInfo = %#v", hPeer.AuthInfo)
	}
	if !c.TLS && hPeer.AuthInfo != nil {
		return o.failf("http: handler peer AuthInfo = %#v", hPeer.AuthInfo)
	}
	if c.TLS && c.ClientCert {
		// the certificate the client presented, and how it was verified: what handlers authorise by
		st := ti.State
		if len(st.PeerCertificates) == 0 || !st.PeerCertificates[0].Equal(c13ClientLeaf) {
			return o.failf("mutual TLS: handler peer's TLS info lists %d peer certificates, not the client's", len(st.PeerCertificates))
		}
		if len(st.VerifiedChains) == 0 {
			return o.failf("mutual TLS: handler peer's TLS info has no verified chains")
		}
		for i, chain := range st.VerifiedChains {
			if len(chain) == 0 || !chain[0].Equal(c13ClientLeaf) {
				return o.failf("mutual TLS: handler peer's TLS info: verified chain %d of %d has %d certificates and does not start with the client's", i+1, len(st.VerifiedChains), len(chain))
			}
		}
	}
	return o
}

func c13Grid() []c13Case {
	var cs []c13Case
	for _, car := range []string{cHTTP, cHTTPMux, cHTTPPer, cInproc} {
		for _, tls := range []bool{false, true} {
			if car == cInproc && tls {
				continue
			}
			for _, cr := range []string{"none", "plain", "secure", "error"} {
				for _, st := range []bool{false, true} {
					for _, po := range []int{0, 1, 2} {
						for _, ho := range []bool{false, true} {
							cs = append(cs, c13Case{Carrier: car, TLS: tls, Creds: cr, Stream: st, PeerOpt: po, HdrOpt: ho,
								CredMD: map[string]string{"zz-token": "t0k", "q-shared": "from-creds"}, CallerMD: MDSpec{{"q-shared", []byte("from-caller")}, {"app-x", []byte("1")}}})
							if cr == "plain" && po == 1 {
								// the handler fails: the call still reached the server, so the peer is known
								cs = append(cs, c13Case{Carrier: car, TLS: tls, Creds: cr, Stream: st, PeerOpt: po, HdrOpt: ho, Fail: 5,
									CredMD: map[string]string{"Q-Shared": "from-creds"}, CallerMD: MDSpec{{"q-shared", []byte("from-caller")}}})
							}
						}
					}
				}
			}
		}
	}
	return cs
}

func genC13(t *rapid.T) c13Case {
	c := c13Case{Carrier: rapid.SampledFrom([]string{cHTTP, cHTTPMux, cHTTPPer, cInproc}).Draw(t, "carrier")}
	c.TLS = c.Carrier != cInproc && rapid.Bool().Draw(t, "tls")
	c.Creds = rapid.SampledFrom([]string{"none", "plain", "plain", "secure", "secure", "error"}).Draw(t, "creds")
	c.Stream = rapid.Bool().Draw(t, "stream")
	c.PeerOpt = rapid.IntRange(0, 2).Draw(t, "peeropts")
	c.HdrOpt = rapid.Bool().Draw(t, "hdropt")
	c.CallerMD = genMD(t, "caller", 3)
	c.Append = rapid.Bool().Draw(t, "append")
	c.ReusePeer = c.PeerOpt > 0 && rapid.IntRange(0, 2).Draw(t, "reusepeer") == 0
	c.CtxPeer = rapid.IntRange(0, 3).Draw(t, "ctxpeer") == 0
	c.ClientCert = c.TLS && rapid.IntRange(0, 2).Draw(t, "clientcert") == 0
	c.ErrStale = c.Creds == "error" && rapid.Bool().Draw(t, "errstale")
	switch rapid.IntRange(0, 7).Draw(t, "forwarded") {
	case 0:
		// proxy-style headers are ordinary metadata to this transport: they say nothing about the peer
		c.CallerMD = append(c.CallerMD, MDPair{K: rapid.SampledFrom([]string{"x-forwarded-for", "x-real-ip", "forwarded"}).Draw(t, "fwdkey"), V: []byte("203.0.113.7")})
	case 1:
		c.FwdCred = true
	}
	if c.Creds != "none" && rapid.IntRange(0, 3).Draw(t, "first") == 0 {
		c.First = rapid.SampledFrom([]string{"plain", "secure"}).Draw(t, "firstkind")
	}
	if c.Carrier != cInproc {
		c.Host = rapid.SampledFrom([]string{"", "", "ipv6", "name", "noport"}).Draw(t, "host")
	}
	if rapid.IntRange(0, 3).Draw(t, "fail") == 0 {
		c.Fail = rapid.SampledFrom([]uint32{5, 9, 13}).Draw(t, "failcode")
	}
	if c.Creds == "plain" || c.Creds == "secure" {
		n := rapid.IntRange(0, 3).Draw(t, "ncred")
		if n > 0 {
			c.CredMD = map[string]string{}
		}
		for i := 0; i < n; i++ {
			var k string
			if len(c.CallerMD) > 0 && rapid.Bool().Draw(t, "overlap") {
				k = c.CallerMD[rapid.IntRange(0, len(c.CallerMD)-1).Draw(t, "which")].K
				if rapid.Bool().Draw(t, "upper") {
					k = strings.ToUpper(k[:1]) + k[1:] // same key, spelled with a capital
				}
			} else {
				k = genMDKey(t, "credkey")
			}
			c.CredMD[k] = string(genMDValue(t, "credval", strings.HasSuffix(k, "-bin")))
		}
		if rapid.IntRange(0, 4).Draw(t, "authcollide") == 0 {
			// the usual case of a shared key: a gateway relays the end user's authorization and adds its own
			if c.CredMD == nil {
				c.CredMD = map[string]string{}
			}
			c.CredMD["authorization"] = "Bearer service"
			c.CallerMD = append(c.CallerMD, MDPair{K: "authorization", V: []byte("Bearer user")})
		}
		if c.FwdCred {
			if c.CredMD == nil {
				c.CredMD = map[string]string{}
			}
			c.CredMD["x-forwarded-for"] = "203.0.113.9"
		}
	}
	c.Redirect = c.TLS && c.Creds == "secure" && c.Host == "" && rapid.IntRange(0, 2).Draw(t, "redirect") == 0
	return c
}

func init() { registerReplay("C13", propC13) }

const c13Rule = "exhaustive grid {httpgrpc.Server, HandleServices} x {http, https (httptest TLS server)} + in-process x {no creds, creds not requiring security, creds requiring it, creds returning an error} x {unary, stream} x {0,1,2 grpc.Peer options} x {grpc.Header or not}, then rapid-generated credential maps (empty, disjoint, overlapping caller keys) and caller metadata; " +
	"oracle: security required over http => failure with 0 requests through a counting RoundTripper; credential error => that error, 0 requests; otherwise handler metadata per key = multiset union of caller and credential values with the caller's order kept; grpc.Peer = server host:port and TLSInfo with completed handshake iff https (unary and stream); handler peer likewise; in-process peers have network inproc; " +
	"also generated since the seeded rounds: credential keys spelled with capitals, failing handlers, caller metadata partly attached with AppendToOutgoingContext, base URL host forms ([::1]:port, name:port, name without port), an earlier second credentials option (the later one is in force; a credential requiring security never crosses plain http), the per-method HTTP server form, proxy-style keys (x-forwarded-for ...) in caller and credential metadata with the handler's peer compared to the connection's remote address, peer variables already filled by an earlier call, the caller's context still saying what the caller attached after the call, a caller context that already carries a (foreign, TLS) peer, mutual TLS (client certificate verified by the server: the handler sees it and its verified chains), credentials and caller both supplying the key authorization; " +
	"non-trivial = credentials present or https; distinct by case hash"

func TestC13(t *testing.T) {
	rec("C13").rule = c13Rule
	rec("C13").exhaust = true
	runEnum(t, "C13", c13Grid(), propC13)
	if t.Failed() {
		return
	}
	runProp(t, "C13", c13Rule, genC13, propC13)
}
