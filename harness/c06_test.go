package harness

// C06 — in-process calls never share message memory between caller and handler.

import (
	"context"
	"fmt"
	"runtime"
	"sync"
	"sync/atomic"
	"testing"
	"time"

	"github.com/jhump/protoreflect/dynamic"
	"google.golang.org/grpc"
	"google.golang.org/grpc/encoding"
	grpcproto "google.golang.org/grpc/encoding/proto"
	"google.golang.org/protobuf/proto"
	"pgregory.net/rapid"

	pb "github.com/fullstorydev/grpchan/grpchantesting"
	"github.com/fullstorydev/grpchan/inprocgrpc"
)

type c06Case struct {
	SlowRecv bool   `json:",omitempty"` // streams: the client calls Header() first and dawdles, so the handler gets ahead of it
	Cloner   string // default | codec | clonefunc | copyfunc
	Kind     string // unary | bidi | client-stream | server-stream
	Reqs     []MsgSpec
	Resps    []MsgSpec
	Prefill  MsgSpec // content of receive destinations before the receive
	DynCli   bool    // the client uses dynamic messages
	DynSrv   bool    // the handler uses dynamic messages
	Reuse    bool    // the sender reuses one message object for all its sends
	Early    bool    // unary only: the call is cancelled before the handler decodes the request (schedule point)
	// Echo (streaming handlers): the first response is sent in the very object the handler's most recent receive
	// filled in (an ack/echo handler), which the handler scribbles over as soon as the send has returned
	Echo bool `json:",omitempty"`
}

func c06Cloner(name string) inprocgrpc.Cloner {
	switch name {
	case "codec":
		return inprocgrpc.CodecCloner(encoding.GetCodec(grpcproto.Name))
	case "clonefunc":
		return inprocgrpc.CloneFunc(inprocgrpc.ProtoCloner{}.Clone)
	case "copyfunc":
		return inprocgrpc.CopyFunc(inprocgrpc.ProtoCloner{}.Copy)
	}
	return nil
}

func c06Make(s MsgSpec, dyn bool) interface{} {
	return c18Val{Type: "msg", Dyn: dyn, Bytes: mustMarshal(s.Build())}.build()
}

func c06Wire(x interface{}) string {
	b, err := c18Wire(x)
	if err != nil {
		return "ERR:" + err.Error()
	}
	return string(b)
}

func c06Canon(x interface{}) *pb.Message {
	m, err := c18Canon("msg", x)
	if err != nil {
		return nil
	}
	return m.(*pb.Message)
}

// overwrite replaces the whole content of a message in place with that of src (reusing the object).
func c06Overwrite(dst interface{}, src MsgSpec) {
	b := mustMarshal(src.Build())
	switch m := dst.(type) {
	case *dynamic.Message:
		m.Unmarshal(b)
	case proto.Message:
		proto.Reset(m)
		proto.Unmarshal(b, m)
	}
}

type c06Hold struct {
	release chan struct{}
	arrived chan struct{}
}

type c06Key struct{}

var c06HookOnce sync.Once

func c06InstallHook() {
	// shares the process-wide hook with C04: dispatch on the context key
	c04InstallHook()
}

func propC06(c c06Case) *Outcome {
	o := &Outcome{}
	o.class("cloner=%s/kind=%s", c.Cloner, c.Kind)
	o.class("dyn-client=%v/dyn-server=%v", c.DynCli, c.DynSrv)
	if c.Early {
		o.class("early-end")
		return c06Early(c, o)
	}
	rich := func(s MsgSpec) bool {
		n := 0
		if s.payloadLen() > 0 {
			n++
		}
		if len(s.Hdr)+len(s.Tlr) > 0 {
			n++
		}
		if len(s.Anys) > 0 {
			n++
		}
		return n >= 2
	}
	for _, s := range append(append([]MsgSpec{}, c.Reqs...), c.Resps...) {
		if rich(s) {
			o.NonTrivial = true
		}
	}
	var mu sync.Mutex
	var faults []string
	fault := func(format string, a ...interface{}) {
		mu.Lock()
		if len(faults) < 6 {
			faults = append(faults, fmt.Sprintf(format, a...))
		}
		mu.Unlock()
	}
	crossRefused := false
	// handler-side objects kept for inspection after the call
	var hReqObjs []interface{}
	var hReqSnap []string
	var hRespObjs []interface{}
	newSrv := func(s MsgSpec) interface{} { return c06Make(s, c.DynSrv) }
	svc := &Service{}
	svc.UnaryRaw = func(ctx context.Context, dec func(interface{}) error, _ grpc.UnaryServerInterceptor) (interface{}, error) {
		in := newSrv(c.Prefill)
		if err := dec(in); err != nil {
			return nil, err
		}
		mu.Lock()
		hReqObjs = append(hReqObjs, in)
		hReqSnap = append(hReqSnap, c06Wire(in))
		mu.Unlock()
		if want := c.Reqs[0].Build(); !sameMsg(c06Canon(in), want) {
			fault("handler received %v, caller sent %v (pre-filled destination merged instead of overwritten?)", c06Canon(in), want)
		}
		resp := newSrv(c.Resps[0])
		mu.Lock()
		hRespObjs = append(hRespObjs, resp)
		mu.Unlock()
		return resp, nil
	}
	svc.Stream = func(kind string, stream grpc.ServerStream) error {
		i := 0
		for {
			in := newSrv(c.Prefill)
			if err := stream.RecvMsg(in); err != nil {
				break
			}
			if i < len(c.Reqs) {
				if want := c.Reqs[i].Build(); !sameMsg(c06Canon(in), want) {
					fault("handler message %d is %v, caller sent %v", i, c06Canon(in), want)
				}
			}
			mu.Lock()
			hReqObjs = append(hReqObjs, in)
			hReqSnap = append(hReqSnap, c06Wire(in))
			mu.Unlock()
			i++
			if !clientStreaming(kind) {
				break
			}
		}
		var obj interface{}
		for j, s := range c.Resps {
			echoed := false
			if j == 0 && c.Echo && i > 0 {
				// answer in the object just received (it is the handler's own; kept out of the later inspections)
				mu.Lock()
				obj = hReqObjs[len(hReqObjs)-1]
				hReqObjs, hReqSnap = hReqObjs[:len(hReqObjs)-1], hReqSnap[:len(hReqSnap)-1]
				mu.Unlock()
				c06Overwrite(obj, s)
				echoed = true
			} else if obj == nil || !c.Reuse || (j == 1 && c.Echo) {
				obj = newSrv(s)
			} else {
				c06Overwrite(obj, s)
			}
			if err := stream.SendMsg(obj); err != nil {
				fault("handler SendMsg %d: %v", j, err)
				return err
			}
			// the send has returned: the library must be done with our object
			if c.Reuse || echoed {
				flipBytes(obj)
			} else {
				mu.Lock()
				hRespObjs = append(hRespObjs, obj)
				mu.Unlock()
			}
			if !serverStreaming(kind) {
				break
			}
		}
		return nil
	}
	ch := &inprocgrpc.Channel{}
	if cl := c06Cloner(c.Cloner); cl != nil {
		ch.WithCloner(cl)
	}
	ch.RegisterService(newServiceDesc(), svc)
	ctx, cancel := context.WithCancel(context.Background())
	defer cancel()
	var cReqObjs, cRespObjs []interface{}
	var cRespSnap []string
	var callErr error
	stall := guard("client", func() {
		if c.Kind == kUnary {
			req := c06Make(c.Reqs[0], c.DynCli)
			resp := c06Make(c.Prefill, c.DynCli)
			callErr = ch.Invoke(ctx, mUnary, req, resp)
			cReqObjs = append(cReqObjs, req)
			if callErr == nil {
				cRespObjs = append(cRespObjs, resp)
				cRespSnap = append(cRespSnap, c06Wire(resp))
				if want := c.Resps[0].Build(); !sameMsg(c06Canon(resp), want) {
					fault("caller received %v, handler returned %v (pre-filled destination merged instead of overwritten?)", c06Canon(resp), want)
				}
			}
			return
		}
		cs, err := ch.NewStream(ctx, streamDescOf(c.Kind), methodOf(c.Kind))
		if err != nil {
			callErr = err
			return
		}
		var obj interface{}
		nreq := len(c.Reqs)
		if !clientStreaming(c.Kind) {
			nreq = 1
		}
		for i := 0; i < nreq; i++ {
			if obj == nil || !c.Reuse {
				obj = c06Make(c.Reqs[i], c.DynCli)
			} else {
				c06Overwrite(obj, c.Reqs[i])
			}
			if err := cs.SendMsg(obj); err != nil {
				callErr = err
				return
			}
			if c.Reuse {
				flipBytes(obj) // scribble over it right away: the send has returned
			} else {
				cReqObjs = append(cReqObjs, obj)
			}
		}
		cs.CloseSend()
		if c.SlowRecv {
			// the handler runs ahead: Header() (no header is coming) parks the first message on the client,
			// the next sits in the buffer, the handler prepares a third; each stays what it was when sent
			cs.Header()
			for k := 0; k < 20; k++ {
				runtime.Gosched()
			}
		}
		for j := 0; j < len(c.Resps)+1; j++ {
			dst := c06Make(c.Prefill, c.DynCli)
			err := cs.RecvMsg(dst)
			if err != nil {
				if fmt.Sprint(err) != "EOF" {
					callErr = err
				}
				break
			}
			if j < len(c.Resps) {
				if want := c.Resps[j].Build(); !sameMsg(c06Canon(dst), want) {
					fault("caller message %d is %v, handler sent %v", j, c06Canon(dst), want)
				}
			}
			cRespObjs = append(cRespObjs, dst)
			cRespSnap = append(cRespSnap, c06Wire(dst))
		}
	})
	if stall != "" {
		o.Observed = stall
		return o.failf("%s/%s (dyn client=%v server=%v reuse=%v nreq=%d nresp=%d): stall: %s", c.Cloner, c.Kind, c.DynCli, c.DynSrv, c.Reuse, len(c.Reqs), len(c.Resps), firstLine(stall))
	}
	if callErr != nil {
		if c.Cloner == "clonefunc" && c.DynCli != c.DynSrv {
			crossRefused = true // documented: reflection assignment between identical Go types only
		} else {
			return o.failf("%s/%s (dyn client=%v server=%v): call failed: %v", c.Cloner, c.Kind, c.DynCli, c.DynSrv, callErr)
		}
	}
	if crossRefused {
		o.class("clonefunc-cross-repr-refused")
		return o
	}
	mu.Lock()
	defer mu.Unlock()
	o.Observed = faults
	if len(faults) > 0 {
		return o.failf("%s/%s: %s", c.Cloner, c.Kind, faults[0])
	}
	// mutation after the fact, both directions, requests and responses
	for _, x := range cReqObjs {
		flipBytes(x)
	}
	for i, x := range hReqObjs {
		if c06Wire(x) != hReqSnap[i] {
			return o.failf("%s/%s: mutating the caller's request after the call changed the handler's request message %d (shared memory)", c.Cloner, c.Kind, i)
		}
	}
	for _, x := range hRespObjs {
		flipBytes(x)
	}
	for i, x := range cRespObjs {
		if c06Wire(x) != cRespSnap[i] {
			return o.failf("%s/%s: mutating the handler's response object changed the caller's response message %d (shared memory)", c.Cloner, c.Kind, i)
		}
	}
	// and the receivers' objects do not lead back to the senders'
	hRespSnap := make([]string, len(hRespObjs))
	for i, x := range hRespObjs {
		hRespSnap[i] = c06Wire(x)
	}
	cReqSnap := make([]string, len(cReqObjs))
	for i, x := range cReqObjs {
		cReqSnap[i] = c06Wire(x)
	}
	for _, x := range cRespObjs {
		flipBytes(x)
	}
	for _, x := range hReqObjs {
		flipBytes(x)
	}
	for i, x := range hRespObjs {
		if c06Wire(x) != hRespSnap[i] {
			return o.failf("%s/%s: mutating the caller's received response changed the handler's response object %d", c.Cloner, c.Kind, i)
		}
	}
	for i, x := range cReqObjs {
		if c06Wire(x) != cReqSnap[i] {
			return o.failf("%s/%s: mutating the handler's received request changed the caller's request object %d", c.Cloner, c.Kind, i)
		}
	}
	return o
}

// c06Early: the unary call ends (cancellation) before the handler has decoded the request. After
// Invoke has returned the caller owns its request again and overwrites it; the handler, which
// still runs, must not see that.
func c06Early(c c06Case, o *Outcome) *Outcome {
	o.NonTrivial = true
	c06InstallHook()
	var mu sync.Mutex
	var seen *pb.Message
	decoded := make(chan struct{})
	var released atomic.Bool
	svc := &Service{UnaryRaw: func(ctx context.Context, dec func(interface{}) error, _ grpc.UnaryServerInterceptor) (interface{}, error) {
		if !released.Load() {
			// the later, ordinary call on the same channel (the abandoned one is still parked before its handler)
			in := c06Make(MsgSpec{}, c.DynSrv)
			if err := dec(in); err != nil {
				return nil, err
			}
			return c06Make(c.Resps[0], c.DynSrv), nil
		}
		defer close(decoded)
		in := c06Make(c.Prefill, c.DynSrv)
		if err := dec(in); err != nil {
			return nil, err
		}
		mu.Lock()
		seen = c06Canon(in)
		mu.Unlock()
		return c06Make(c.Resps[0], c.DynSrv), nil
	}}
	ch := &inprocgrpc.Channel{}
	if cl := c06Cloner(c.Cloner); cl != nil {
		ch.WithCloner(cl)
	}
	ch.RegisterService(newServiceDesc(), svc)
	mctx := newManualCtx(context.Background(), false)
	cc := &c04Case{Point: "never"}
	ctl := &c04Ctl{c: cc, ctx: mctx, holdServer: make(chan struct{})}
	gate := &c06Gate{arrived: make(chan struct{}), release: make(chan struct{})}
	ctl.gate = gate
	ctx := context.WithValue(context.Context(mctx), c04Key{}, ctl)
	req := c06Make(c.Reqs[0], c.DynCli)
	want := c.Reqs[0].Build()
	resp := c06Make(c.Prefill, c.DynCli)
	errCh := make(chan error, 1)
	go func() { errCh <- ch.Invoke(ctx, mUnary, req, resp) }()
	select {
	case <-gate.arrived:
	case <-time.After(stallBound):
		return o.failf("server goroutine never reached its start")
	}
	mctx.fire()
	var err error
	select {
	case err = <-errCh:
	case <-time.After(stallBound):
		return o.failf("Invoke did not return after cancellation")
	}
	// Invoke has returned: the request is ours again
	marker := MsgSpec{Raw: []byte("OVERWRITTEN-AFTER-RETURN"), Count: -77}
	c06Overwrite(req, marker)
	// ... and so is the response object: e.g. a retry has meanwhile put its own reply there
	respMarker := MsgSpec{Raw: []byte("REPLY-OF-THE-RETRY"), Count: -78}
	c06Overwrite(resp, respMarker)
	// ... and the channel is used again, with another request of the same type (the abandoned handler is
	// still parked: nothing of this second call may reach it)
	second := c06Make(MsgSpec{Raw: []byte("SECOND-REQUEST"), Count: -79}, c.DynCli)
	secondDone := make(chan struct{})
	go func() {
		defer close(secondDone)
		ch.Invoke(context.Background(), mUnary, second, c06Make(MsgSpec{}, c.DynCli))
	}()
	select {
	case <-secondDone:
	case <-time.After(stallBound):
		return o.failf("a second call on the same channel did not return while the abandoned one was parked")
	}
	released.Store(true)
	close(gate.release)
	select {
	case <-decoded:
	case <-time.After(stallBound):
		return o.failf("handler never ran")
	}
	// the abandoned handler now returns its response; the library must not write it into the caller's message
	if err != nil {
		for i := 0; i < 40; i++ {
			time.Sleep(100 * time.Microsecond)
			if got := c06Canon(resp); !sameMsg(got, respMarker.Build()) {
				return o.failf("%s (dyn client=%v server=%v): Invoke returned %v; the caller reused its response object, and the abandoned handler's late response was then written into it: %v", c.Cloner, c.DynCli, c.DynSrv, err, got)
			}
		}
	}
	mu.Lock()
	defer mu.Unlock()
	o.Observed = map[string]interface{}{"invoke_err": errStr(err), "handler_saw": fmt.Sprint(seen)}
	if seen == nil {
		return o // the handler's decode failed: nothing was read (acceptable)
	}
	if !sameMsg(seen, want) {
		if c.Cloner == "clonefunc" && c.DynCli != c.DynSrv {
			return o
		}
		return o.failf("%s (dyn client=%v server=%v): Invoke returned (%v), the caller then reused its request, and the handler decoded %v instead of the request as sent %v - the library read the caller's message after the call had returned", c.Cloner, c.DynCli, c.DynSrv, err, seen, want)
	}
	return o
}

// c06Gate holds the unary server goroutine at its start.
type c06Gate struct {
	arrived chan struct{}
	release chan struct{}
	once    sync.Once
}

func genC06(t *rapid.T) c06Case {
	c := genC06Base(t)
	c.Echo = c.Kind != kUnary && !c.Early && rapid.IntRange(0, 3).Draw(t, "echo") == 0
	return c
}

func genC06Base(t *rapid.T) c06Case {
	c := c06Case{Cloner: rapid.SampledFrom([]string{"default", "default", "codec", "clonefunc", "copyfunc"}).Draw(t, "cloner"), Kind: rapid.SampledFrom(allKinds).Draw(t, "kind")}
	nreq, nresp := 1, 1
	if clientStreaming(c.Kind) {
		nreq = rapid.IntRange(1, 4).Draw(t, "nreq")
	}
	if serverStreaming(c.Kind) {
		nresp = rapid.IntRange(1, 4).Draw(t, "nresp")
	}
	genRich := func(label string) MsgSpec {
		m := genMsg(t, label, 3000)
		if rapid.Bool().Draw(t, label+"-enrich") && !m.Empty {
			if m.payloadLen() == 0 {
				m.Raw = []byte("payload-bytes")
			}
			if len(m.Hdr) == 0 {
				m.Hdr = map[string][]byte{"k": []byte("map-value"), "": {1, 2, 3}}
			}
			if len(m.Anys) == 0 {
				m.Anys = []AnySpec{{URL: "type.googleapis.com/x.Y", Val: []byte("any-value")}}
			}
		}
		return m
	}
	for i := 0; i < nreq; i++ {
		c.Reqs = append(c.Reqs, genRich("req"))
	}
	for i := 0; i < nresp; i++ {
		c.Resps = append(c.Resps, genRich("resp"))
	}
	c.Prefill = genRich("prefill")
	c.SlowRecv = c.Kind != kUnary && rapid.IntRange(0, 2).Draw(t, "slowrecv") == 0
	c.DynCli = rapid.IntRange(0, 3).Draw(t, "dyncli") == 0
	c.DynSrv = rapid.IntRange(0, 3).Draw(t, "dynsrv") == 0
	if c.Cloner == "clonefunc" && c.Kind != kUnary {
		// CloneFunc refuses to copy between representations (documented); on a stream that makes
		// the handler's receive fail and the cooperative script pointless
		c.DynSrv = c.DynCli
	}
	if c.DynCli || c.DynSrv {
		// a dynamic message keeps unknown fields per tag and re-emits them in tag order: equal
		// content, different byte order. Keep the comparison exact by not using them here.
		for _, l := range [][]MsgSpec{c.Reqs, c.Resps} {
			for i := range l {
				l[i].Unknown = nil
			}
		}
		c.Prefill.Unknown = nil
	}
	c.Reuse = rapid.Bool().Draw(t, "reuse")
	if c.Kind == kUnary {
		c.Early = rapid.IntRange(0, 3).Draw(t, "early") == 0
	}
	return c
}

func init() { registerReplay("C06", propC06) }

const c06Rule = "rapid-generated in-process calls: cloner (default, CodecCloner, CloneFunc, CopyFunc) x RPC kind x message lists (bytes, maps, repeated Any, unknown fields) x generated or dynamic messages on either side x receive destinations pre-filled with another message x sender reusing (and immediately overwriting) one object for all sends x streaming handlers answering in the very object their last receive filled in x unary calls ended by cancellation before the handler decodes (schedule point unary.server.start: server held, call cancelled, Invoke returns, caller overwrites its request, server released); " +
	"oracle: received == sent exactly (pre-filled destinations overwritten), flipping every reachable byte of the sender's objects after the call leaves the receiver's unchanged and vice versa (requests and responses), a handler that decodes after Invoke returned sees the request as sent, never the caller's later content; " +
	"also generated since the seeded rounds: empty messages re-filled by the sender, a unary call abandoned on cancellation whose caller then reuses request and response objects (the handler must still decode the request as sent; its late response must not be written into the caller's message); " +
	"non-trivial = a message with >=2 populated reference-typed fields, or an early end; distinct by case hash"

func TestC06(t *testing.T) {
	runProp(t, "C06", c06Rule, genC06, propC06)
}
