package harness

// C20 — in-process streams apply backpressure with a small fixed buffer.

import (
	"context"
	"fmt"
	"google.golang.org/grpc/codes"
	"google.golang.org/grpc/peer"
	"google.golang.org/grpc/status"
	"runtime"
	"strings"
	"sync"
	"sync/atomic"
	"testing"
	"time"

	"google.golang.org/grpc"
	"google.golang.org/grpc/metadata"
	"pgregory.net/rapid"

	pb "github.com/fullstorydev/grpchan/grpchantesting"
	"github.com/fullstorydev/grpchan/httpgrpc"
)

type c20Case struct {
	Kind    string // client-stream | server-stream | bidi
	Dir     string // c2s (client sends, handler receives) | s2c
	N       int    // attempted sends
	Size    int    // payload size
	Header  bool   // s2c: the handler sends headers first (a pending header frame)
	UseHdr  bool   // s2c: the client's first consuming call is Header() instead of RecvMsg
	Recvs   []int  // after the k-th quiescent point the receiver performs Recvs[k] receives (0 = stays idle)
	Ending  string // peer-finish | cancel
	Heap    bool   // also bound the live heap of the stalled stream
	Pending string `json:",omitempty"` // c2s on bidi: before stalling, the handler sends "header" or "message" which the client never reads, or starts a "helper" goroutine that keeps sending
	// CallOpts: the stream is opened with grpc.Header / grpc.Trailer / grpc.Peer call options (1 = header,
	// 2 = trailer, 4 = peer, summed); options only say where results are to be stored
	CallOpts int `json:",omitempty"`
	// FinishErr: c2s with ending peer-finish: the handler finishes with trailers and a non-nil status
	FinishErr bool `json:",omitempty"`
	// HdrCalls: with UseHdr, how many times in a row the client calls Header() (a logging wrapper plus the
	// application); only a first call without a pending header frame may take a message
	HdrCalls int `json:",omitempty"`
	// RecvBlocked: c2s on bidi: another goroutine of the client sits in RecvMsg the whole time (full duplex)
	RecvBlocked bool `json:",omitempty"`
	// BadRecv: s2c on response-streaming kinds: the client's first RecvMsg fails (wrong message type)
	BadRecv bool `json:",omitempty"`
	// TrailerPoll: s2c on response-streaming kinds: at every quiescent point the client also asks for Trailer() (a
	// logging wrapper, a poll for completion): that call takes nothing out of the stream
	TrailerPoll bool `json:",omitempty"`
	// FinishGoexit: c2s with ending peer-finish: the handler's goroutine ends with runtime.Goexit() instead of returning
	FinishGoexit bool `json:",omitempty"`
}

type c20Obs struct {
	Points   []string
	Fault    string
	SendErrs []string
}

var c20Serial sync.Mutex

// waitQuiescent waits until the sender goroutine is parked (or has finished all its sends).
func waitQuiescent(gid *atomic.Int64, finished *atomic.Bool) {
	deadline := time.Now().Add(2 * time.Second)
	stable := 0
	for time.Now().Before(deadline) {
		if finished.Load() {
			return
		}
		g := int(gid.Load())
		if g > 0 && blockedState(goroutineState(g)) {
			stable++
			if stable >= 2 {
				return
			}
		} else {
			stable = 0
		}
		time.Sleep(100 * time.Microsecond)
	}
}

func propC20(c c20Case) *Outcome {
	o := &Outcome{}
	o.class("kind=%s/dir=%s/ending=%s", c.Kind, c.Dir, c.Ending)
	o.class("size=%s", bucket(c.Size, 64, 4096, 1<<18, 1<<20))
	if c.Pending != "" {
		o.class("unread-%s-in-the-other-direction", c.Pending)
	}
	idleOnce := false
	for _, k := range c.Recvs {
		if k == 0 {
			idleOnce = true
		}
	}
	o.NonTrivial = c.N >= 3 && (idleOnce || len(c.Recvs) == 0)
	c20Serial.Lock()
	defer c20Serial.Unlock()
	obs := &c20Obs{}
	o.Observed = obs

	var sendsDone atomic.Int64
	var senderGID atomic.Int64
	var senderFinished atomic.Bool
	var mu sync.Mutex
	var sendErrs []string
	senderExited := make(chan struct{})
	recvToken := make(chan chan error) // c2s: tells the handler to perform one RecvMsg
	hReturn := make(chan struct{})     // c2s: tells the handler to return
	hStarted := make(chan struct{})    // c2s: the handler has done its preliminary send
	var hctxDone atomic.Bool

	sendErrsSnapshot := func() []string {
		mu.Lock()
		defer mu.Unlock()
		var es []string
		for _, e := range sendErrs {
			if e != "" {
				es = append(es, e)
			}
		}
		return es
	}
	sendLoop := func(send func(*pb.Message) error) {
		defer close(senderExited)
		senderGID.Store(int64(curGID()))
		for i := 0; i < c.N; i++ {
			m := &pb.Message{Count: int32(i + 1), Payload: fillBytes(c.Size, uint32(i))}
			err := send(m)
			mu.Lock()
			sendErrs = append(sendErrs, errStr(err))
			mu.Unlock()
			if err != nil {
				break
			}
			sendsDone.Add(1)
		}
		senderFinished.Store(true)
	}

	svc := &Service{Stream: func(kind string, stream grpc.ServerStream) error {
		if c.Dir == "s2c" {
			// the handler is the sender
			if !clientStreaming(kind) {
				stream.RecvMsg(new(pb.Message))
			}
			if c.Header {
				stream.SendHeader(metadata.Pairs("zz-h", "1"))
			}
			sendLoop(func(m *pb.Message) error { return stream.SendMsg(m) })
			<-stream.Context().Done()
			hctxDone.Store(true)
			return nil
		}
		// the handler is the receiver, driven by tokens
		switch c.Pending {
		case "header":
			stream.SendHeader(metadata.Pairs("zz-h", "1"))
		case "message":
			stream.SendMsg(&pb.Message{Count: -1})
		case "helper":
			// a helper goroutine of the handler pushes responses (a subscription); nobody reads them, so its second
			// send parks - and is still parked when the handler itself returns
			var helperSends atomic.Int32
			go func() {
				for i := 0; i < 3; i++ {
					helperSends.Add(1)
					if stream.SendMsg(&pb.Message{Count: -1}) != nil {
						return
					}
				}
			}()
			for i := 0; i < 2000 && helperSends.Load() < 2; i++ {
				time.Sleep(50 * time.Microsecond)
			}
			time.Sleep(2 * time.Millisecond) // its second send is under way: parked, nobody reads
		}
		close(hStarted)
		for {
			select {
			case reply := <-recvToken:
				reply <- stream.RecvMsg(new(pb.Message))
			case <-hReturn:
				if c.FinishGoexit {
					// the handler's goroutine is ended from the inside (t.Fatal / t.FailNow / require.* called in a
					// handler do this): the peer has finished all the same
					runtime.Goexit()
				}
				if c.FinishErr {
					// bails out with trailers and an error: more final frames than the one-message slot holds
					if c.Pending != "helper" {
						// (with a helper goroutine parked in SendMsg the stream's own lock is taken: SetTrailer would
						// wait for that send, which is the application's affair, not this property's)
						stream.SetTrailer(metadata.Pairs("zz-t", "1"))
					}
					return status.Error(codes.Aborted, "handler gave up")
				}
				return nil
			case <-stream.Context().Done():
				return nil
			}
		}
	}}
	var heapBefore uint64
	if c.Heap {
		runtime.GC()
		var ms runtime.MemStats
		runtime.ReadMemStats(&ms)
		heapBefore = ms.HeapAlloc
	}
	car := newCarrier(cInproc, newServiceDesc(), svc, carrierOpts{})
	defer car.Close()
	ctx, cancel := context.WithCancel(context.Background())
	defer cancel()
	sdesc := streamDescOf(c.Kind)
	if c.Kind == kServerStream && c.Dir == "c2s" {
		sdesc = &grpc.StreamDesc{StreamName: "ServerStream", ClientStreams: true, ServerStreams: true}
	}
	var copts []grpc.CallOption
	var optHdr, optTlr metadata.MD
	var optPeer peer.Peer
	if c.CallOpts&1 != 0 {
		copts = append(copts, grpc.Header(&optHdr))
	}
	if c.CallOpts&2 != 0 {
		copts = append(copts, grpc.Trailer(&optTlr))
	}
	if c.CallOpts&4 != 0 {
		copts = append(copts, grpc.Peer(&optPeer))
	}
	if c.CallOpts != 0 {
		o.class("with-call-options")
	}
	cs, err := car.Conn.NewStream(ctx, sdesc, methodOf(c.Kind), copts...)
	if err != nil {
		return o.failf("NewStream: %v", err)
	}
	takers := 0
	clientRecvCost := 1
	if !serverStreaming(c.Kind) {
		clientRecvCost = 2 // the receive of a single-response method probes for a second frame
	}
	didRecv := false
	handlerRecvs := 0
	firstConsume := true
	doRecv := func() {
		if c.Dir == "c2s" {
			takers++
			reply := make(chan error, 1)
			select {
			case recvToken <- reply:
				select {
				case <-reply:
					handlerRecvs++
				case <-time.After(stallBound):
					obs.Fault = "handler RecvMsg did not return although the client has sent a message"
				}
			case <-time.After(stallBound):
				obs.Fault = "handler not reachable"
			}
			return
		}
		if firstConsume && c.UseHdr {
			firstConsume = false
			if !c.Header {
				takers++ // no header frame is coming: Header() may take (and park) a data frame
			}
			for k := 0; k < 1+c.HdrCalls && obs.Fault == ""; k++ {
				if s := guardFor(stallBound, "Header()", func() { cs.Header() }); s != "" {
					obs.Fault = s
				}
			}
			return
		}
		wrongType := c.BadRecv && firstConsume && serverStreaming(c.Kind)
		firstConsume = false
		didRecv = true
		takers += clientRecvCost
		if s := guardFor(stallBound, "client RecvMsg", func() {
			if wrongType {
				// a receive that fails (the caller's message is of another type): it has used up one message
				// and nothing more - whatever the client does next, nobody is receiving on its behalf
				cs.RecvMsg(new(httpgrpc.HttpTrailer))
				return
			}
			cs.RecvMsg(new(pb.Message))
		}); s != "" {
			obs.Fault = s
		}
	}
	if c.Dir == "c2s" {
		if c.Pending != "" {
			select {
			case <-hStarted:
			case <-time.After(stallBound):
				return o.failf("handler did not start")
			}
		}
		if c.RecvBlocked && c.Kind == kBidi {
			o.class("client-goroutine-blocked-in-RecvMsg")
			go func() {
				for cs.RecvMsg(new(pb.Message)) == nil {
				}
			}()
			for i := 0; i < 5; i++ {
				runtime.Gosched()
			}
		}
		go sendLoop(func(m *pb.Message) error { return cs.SendMsg(m) })
	} else if !clientStreaming(c.Kind) {
		cs.SendMsg(&pb.Message{})
		cs.CloseSend()
	}
	observe := func(label string) bool {
		sd := sendsDone.Load()
		tk := takers
		obs.Points = append(obs.Points, fmt.Sprintf("%s: sendsDone=%d takers=%d", label, sd, tk))
		// the other direction of the same rule: a send blocks only while the one-message buffer is full, so
		// with r messages taken by the handler and the sender at rest, min(N, r+1) sends have completed
		if c.Dir == "c2s" && strings.HasPrefix(label, "quiescent") {
			want := handlerRecvs + 1
			if want > c.N {
				want = c.N
			}
			if int(sd) < want && len(sendErrsSnapshot()) == 0 {
				obs.Fault = fmt.Sprintf("%s: the handler has received %d messages and the sender is at rest after only %d completed sends of %d: a send is blocked although the buffer has room", label, handlerRecvs, sd, c.N)
				return false
			}
		}
		if int(sd) > tk+1 {
			obs.Fault = fmt.Sprintf("%s: %d sends have completed but the receiver has started only %d frame-consuming calls: the sender is %d messages ahead (allowed: 1 buffered message)", label, sd, tk, int(sd)-tk)
			return false
		}
		return true
	}
	// a receive only returns if a message is (or will be) there: never ask for more than the
	// sender is going to supply
	budget := c.N
	if c.Dir == "s2c" && !serverStreaming(c.Kind) {
		budget = 0
		if c.N >= 2 {
			budget = 1 // one RecvMsg, which also consumes the surplus second message
		}
	}
	ok := true
	for k := 0; k <= len(c.Recvs) && ok && obs.Fault == ""; k++ {
		waitQuiescent(&senderGID, &senderFinished)
		if c.TrailerPoll && didRecv {
			cs.Trailer()
			waitQuiescent(&senderGID, &senderFinished)
		}
		ok = observe(fmt.Sprintf("quiescent point %d", k))
		if !ok || k == len(c.Recvs) {
			break
		}
		for j := 0; j < c.Recvs[k] && obs.Fault == "" && budget > 0; j++ {
			budget--
			doRecv()
			ok = observe(fmt.Sprintf("after receive %d of point %d", j+1, k))
			if !ok {
				break
			}
		}
	}
	if obs.Fault == "" && c.Heap {
		waitQuiescent(&senderGID, &senderFinished)
		runtime.GC()
		var ms runtime.MemStats
		runtime.ReadMemStats(&ms)
		grown := int64(ms.HeapAlloc) - int64(heapBefore)
		bound := int64(6*c.Size + 4<<20)
		obs.Points = append(obs.Points, fmt.Sprintf("live heap growth of the stalled stream: %d bytes (bound %d)", grown, bound))
		if grown > bound {
			obs.Fault = fmt.Sprintf("stalled stream (receiver idle, %d sends of %d bytes attempted) holds %d bytes of live heap, bound %d", c.N, c.Size, grown, bound)
		}
	}
	// ending event: the parked sender must come back
	switch {
	case c.Dir == "s2c" && !serverStreaming(c.Kind) && didRecv && c.N >= 3 && c.Ending == "peer-finish":
		// the client's one RecvMsg has met the surplus response and ended the call by itself (the peer
		// has finished): the handler's parked send must come back without anybody cancelling anything
		o.class("peer-finish-by-cardinality-error")
	case c.Ending == "cancel" || c.Dir == "s2c":
		cancel()
	default:
		close(hReturn)
	}
	select {
	case <-senderExited:
	case <-time.After(stallBound):
		if obs.Fault == "" {
			obs.Fault = fmt.Sprintf("sender still blocked %v after the ending event (%s)\n%s", stallBound, c.Ending, goroutineDump())
		}
	}
	cancel()
	mu.Lock()
	obs.SendErrs = sendErrs
	mu.Unlock()
	if obs.Fault != "" {
		return o.failf("%s/%s: %s", c.Kind, c.Dir, firstLine(obs.Fault))
	}
	return o
}

func genC20(t *rapid.T) c20Case {
	c := c20Case{Kind: rapid.SampledFrom([]string{kClientStream, kServerStream, kBidi, kBidi}).Draw(t, "kind")}
	switch c.Kind {
	case kClientStream:
		c.Dir = rapid.SampledFrom([]string{"c2s", "c2s", "s2c"}).Draw(t, "dir")
	case kServerStream:
		// c2s here = a client streaming requests to a method that takes a single one (raw
		// stream descriptor, as generic proxies use): the handler reads one and stalls
		c.Dir = rapid.SampledFrom([]string{"s2c", "s2c", "c2s"}).Draw(t, "dir")
	default:
		c.Dir = rapid.SampledFrom([]string{"c2s", "s2c"}).Draw(t, "dir")
	}
	c.N = rapid.OneOf(rapid.IntRange(1, 8), rapid.IntRange(3, 64)).Draw(t, "n")
	c.Size = rapid.SampledFrom([]int{0, 10, 10, 1000, 100000}).Draw(t, "size")
	if c.Dir == "s2c" {
		c.Header = rapid.Bool().Draw(t, "header")
		c.UseHdr = rapid.Bool().Draw(t, "usehdr")
	}
	np := rapid.IntRange(0, 6).Draw(t, "npoints")
	for i := 0; i < np; i++ {
		c.Recvs = append(c.Recvs, rapid.SampledFrom([]int{0, 0, 1, 1, 2, 3}).Draw(t, "recvs"))
	}
	c.Ending = rapid.SampledFrom([]string{"peer-finish", "cancel"}).Draw(t, "ending")
	c.FinishErr = rapid.Bool().Draw(t, "finisherr")
	if c.UseHdr {
		c.HdrCalls = rapid.SampledFrom([]int{0, 0, 1, 2}).Draw(t, "hdrcalls")
	}
	c.BadRecv = c.Dir == "s2c" && rapid.IntRange(0, 3).Draw(t, "badrecv") == 0
	c.RecvBlocked = c.Dir == "c2s" && c.Kind == kBidi && rapid.IntRange(0, 2).Draw(t, "recvblocked") == 0
	c.CallOpts = rapid.SampledFrom([]int{0, 0, 0, 1, 1, 2, 3, 4, 7}).Draw(t, "callopts")
	if c.Dir == "c2s" && c.Kind == kBidi {
		c.Pending = rapid.SampledFrom([]string{"", "", "header", "message", "helper"}).Draw(t, "pending")
	}
	if c.Dir == "c2s" && c.Kind == kClientStream && rapid.IntRange(0, 2).Draw(t, "earlyanswer") == 0 {
		// the handler of a single-response method answers early (acknowledges or rejects the upload after the first
		// chunk) and stays alive without receiving: the client's sends are held back as before
		c.Pending = "message"
	}
	c.TrailerPoll = c.Dir == "s2c" && serverStreaming(c.Kind) && rapid.IntRange(0, 2).Draw(t, "trailerpoll") == 0
	c.FinishGoexit = c.Dir == "c2s" && c.Ending == "peer-finish" && rapid.IntRange(0, 3).Draw(t, "goexit") == 0
	if thorough() && rapid.IntRange(0, 9).Draw(t, "heap") == 0 {
		c.Heap, c.Size, c.N = true, 1<<20, 48
	}
	return c
}

// fixed heap cases so that the memory clause is exercised on every run
func c20HeapCases() []c20Case {
	return []c20Case{
		{Kind: kBidi, Dir: "c2s", N: 40, Size: 256 << 10, Ending: "cancel", Heap: true},
		{Kind: kBidi, Dir: "s2c", N: 40, Size: 256 << 10, Ending: "cancel", Heap: true, Header: true},
		{Kind: kClientStream, Dir: "c2s", N: 40, Size: 256 << 10, Ending: "peer-finish", Heap: true},
		{Kind: kServerStream, Dir: "s2c", N: 40, Size: 256 << 10, Ending: "cancel", Heap: true},
	}
}

func init() { registerReplay("C20", propC20) }

const c20Rule = "rapid-generated: stream kind x direction (client->handler, handler->client) x 1..64 attempted sends x payload size (0..100 KB; fixed cases 40 x 256 KiB, thorough 48 x 1 MiB) x pending header frame or not x first consuming call Header() or RecvMsg x receiver schedule (per quiescent point 0..3 receives) x ending (peer finishes / context cancelled); " +
	"oracle: at every observation sendsDone <= takers + 1, where takers counts frame-consuming calls before they start (2 per client RecvMsg of a single-response method); with the receiver idle and the sender parked (runtime.Stack state) that means <= 1 completed send however many were attempted; live heap of the stalled stream <= 6 x size + 4 MiB after GC; the parked sender returns within 20 s of the ending event; " +
	"also generated since the seeded rounds: an unread header/message in the other direction, Header() with and without a pending header frame, request flooding of a server-streaming method through a raw bidi descriptor, grpc.Header/Trailer/Peer call options in every combination, handlers finishing with trailers and an error while the client's sender is parked, Header() called several times in a row, a client goroutine blocked in RecvMsg while another sends (lower bound: with r messages taken and the sender at rest, min(N, r+1) sends have completed); " +
	"non-trivial = >= 3 attempted sends and the receiver idle at least once while sends remained; distinct by case hash"

func TestC20(t *testing.T) {
	rec("C20").rule = c20Rule
	runEnum(t, "C20", c20HeapCases(), propC20)
	if t.Failed() {
		return
	}
	runProp(t, "C20", c20Rule, genC20, propC20)
}
