package harness

// C04 — cancellation and deadlines end calls with the right code and reach the handler.

import (
	"context"
	"errors"
	"fmt"
	"google.golang.org/protobuf/proto"
	"io"
	"net"
	"net/http"
	"os"
	"strings"
	"sync"
	"sync/atomic"
	"testing"
	"time"

	"google.golang.org/grpc"
	"google.golang.org/grpc/codes"
	"google.golang.org/grpc/metadata"
	"google.golang.org/grpc/status"
	"pgregory.net/rapid"

	pb "github.com/fullstorydev/grpchan/grpchantesting"
	"github.com/fullstorydev/grpchan/inprocgrpc"
)

type c04Case struct {
	Carrier  string
	Kind     string
	Mode     string // cancel | deadline
	Attitude string // ignore | return-ctx-err | block | extra-recv
	NReq     int
	NResp    int
	Final    uint32 // status the handler returns when it runs to the end (0 = nil)
	// Point names the instant: c:<step> / h:<step> (script steps), hook:<point>:<arg>[+hold] (in-process
	// unary schedule points), io:<k> (k-th I/O call on the client's connection, HTTP)
	Point string
	Reps  int // repetitions (Go's select picks randomly among ready cases)
	// server-deadline mode: how far ahead the caller's deadline lies when the call starts (microseconds)
	DeadlineUs int `json:",omitempty"`
	// Creds: the call carries per-RPC credentials (their callback is handed the call's context)
	Creds bool `json:",omitempty"`
	// Cause (cancel mode): the caller's context was made with context.WithCancelCause and is cancelled with a
	// cause of its own; the outcome is still a Canceled status
	Cause bool `json:",omitempty"`
	// ServerLimit (server-deadline mode): a request-timeout middleware in front of the library has already
	// given the request a (much later) deadline of its own; the caller's still has to reach the handler
	ServerLimit bool `json:",omitempty"`
	// OpenReq (server-deadline mode, client-streaming kinds): the caller does not half-close, so the timeout
	// header is the only way the handler can learn of the deadline
	OpenReq bool `json:",omitempty"`
	// HeaderFirst (streaming kinds): the client calls Header() before its first receive (as code that wants the
	// response headers up front does); the receives that follow are judged as always
	HeaderFirst bool `json:",omitempty"`
	// SubOp (mode "sub-operation", all carriers): the handler gives up on a sub-operation of its own - a context
	// derived from the call's that it cancels ("cancel") or that times out ("timeout") - and returns that
	// context's error (plain, wrapped with %w, or as a status), while the caller's context is alive and has no
	// deadline: the handler itself returned a context error, the caller sees the matching code
	SubOp string `json:",omitempty"`
	// PastDeadline (cancel mode, instant before the call): the context that was cancelled by hand also had a
	// deadline, and that instant has meanwhile passed (a clean-up call made with a cancelled job context): it is a
	// cancelled context - Canceled, not DeadlineExceeded
	PastDeadline bool `json:",omitempty"`
}

// manualCtx is a context whose end the harness decides: Done is closed by fire(), Err is
// Canceled or DeadlineExceeded according to the mode. Its deadline lies an hour ahead so that
// nothing else expires first.
type manualCtx struct {
	context.Context
	done     chan struct{}
	once     sync.Once
	err      atomic.Value
	deadline time.Time
	isDL     bool
	hasDL    bool // cancel mode: the context also has a deadline (Err() stays Canceled)
	// cause mode: the context is, underneath, one made by context.WithCancelCause and is ended with a cause
	// of the application's own (context.Cause(ctx) is that error, ctx.Err() still context.Canceled)
	causeCancel context.CancelCauseFunc
}

var errC04Cause = errors.New("shutting down")

func newManualCtx(parent context.Context, deadlineMode bool) *manualCtx {
	return &manualCtx{Context: parent, done: make(chan struct{}), deadline: time.Now().Add(time.Hour), isDL: deadlineMode}
}

func newManualCauseCtx(parent context.Context) *manualCtx {
	cctx, cancel := context.WithCancelCause(parent)
	return &manualCtx{Context: cctx, done: make(chan struct{}), deadline: time.Now().Add(time.Hour), causeCancel: cancel}
}

func (m *manualCtx) Done() <-chan struct{} { return m.done }
func (m *manualCtx) Err() error {
	if e, _ := m.err.Load().(error); e != nil {
		return e
	}
	return nil
}
func (m *manualCtx) Deadline() (time.Time, bool) {
	if m.isDL || m.hasDL {
		return m.deadline, true
	}
	return time.Time{}, false
}
func (m *manualCtx) fire() {
	m.once.Do(func() {
		if m.causeCancel != nil {
			m.causeCancel(errC04Cause)
		}
		if m.isDL {
			m.err.Store(context.DeadlineExceeded)
		} else {
			m.err.Store(context.Canceled)
		}
		close(m.done)
	})
}

type c04Obs struct {
	Fired          bool
	FiredAt        string
	Results        []string // client-side results after the instant
	Received       int
	HandlerRuns    int
	HandlerRet     string // what the handler returned ("" = did not return / not run)
	HandlerSawDone string // "yes" | "no" | "n/a"
	HdrOK, TlrOK   bool
	Fault          string
	Rep            int
}

type c04Hold struct {
	point string
	ch    chan struct{}
}

type c04Key struct{}

// c04Ctl is the per-call controller, found through a context value (hooks) or closure.
type c04Ctl struct {
	c          *c04Case
	ctx        *manualCtx
	mu         sync.Mutex
	fired      bool
	firedAt    string
	holdServer chan struct{} // closed to release a held server goroutine
	ioCount    atomic.Int64
	ioAt       int64
	splitAt    int64 // iosplit:k/j - split the k-th read at j/8 of its length
	splitNum   int
	gate       *c06Gate // C06: hold the unary server goroutine at its start
}

func (k *c04Ctl) at(point string) {
	if k.c.Point != point {
		return
	}
	k.fire(point)
}

func (k *c04Ctl) fire(point string) {
	k.mu.Lock()
	already := k.fired
	k.fired = true
	if !already {
		k.firedAt = point
	}
	k.mu.Unlock()
	if !already {
		k.ctx.fire()
	}
}

func (k *c04Ctl) hasFired() bool {
	k.mu.Lock()
	defer k.mu.Unlock()
	return k.fired
}

// hook dispatch for the in-process unary schedule points
var c04HookOnce sync.Once

func c04InstallHook() {
	c04HookOnce.Do(func() {
		inprocgrpc.SetVerifHook(func(ctx context.Context, point string, arg string) {
			k, _ := ctx.Value(c04Key{}).(*c04Ctl)
			if k == nil {
				if cc := inprocgrpc.ClientContext(ctx); cc != nil {
					k, _ = cc.Value(c04Key{}).(*c04Ctl)
				}
			}
			if k == nil {
				return
			}
			k.hookPoint(point, arg)
		})
	})
}

func frameKindOf(arg string) string {
	switch {
	case strings.HasPrefix(arg, "data"):
		return "data"
	case strings.HasPrefix(arg, "headers"):
		return "headers"
	case strings.HasPrefix(arg, "trailers"):
		return "trailers"
	case strings.HasPrefix(arg, "error"):
		return "error"
	}
	return arg
}

func (k *c04Ctl) hookPoint(point, arg string) {
	if k.gate != nil {
		if point == "unary.server.start" {
			k.gate.once.Do(func() { close(k.gate.arrived) })
			select {
			case <-k.gate.release:
			case <-time.After(stallBound):
			}
		}
		return
	}
	name := "hook:" + point
	if point != "unary.server.start" {
		name += ":" + frameKindOf(arg)
	}
	p := k.c.Point
	hold := strings.HasSuffix(p, "+hold")
	p = strings.TrimSuffix(p, "+hold")
	if hold && strings.HasPrefix(name, "hook:unary.server.beforeWrite") && strings.HasPrefix(p, "hook:unary.client.afterRead") {
		// the "both sides held" placement: the client is (or will be) held after reading a frame;
		// hold the server before its next write until the instant has passed
		if wantNext := nextFrameAfter(p); wantNext == frameKindOf(arg) {
			select {
			case <-k.holdServer:
			case <-time.After(20 * time.Millisecond): // the awaited client point may never come (no such frame)
			}
		}
		return
	}
	if name != p {
		return
	}
	k.fire(name)
	if hold {
		// release a server held for us, let it run into its select, then go on
		select {
		case <-k.holdServer:
		default:
			close(k.holdServer)
		}
		time.Sleep(200 * time.Microsecond)
	}
}

func nextFrameAfter(clientPoint string) string {
	switch {
	case strings.HasSuffix(clientPoint, ":headers"):
		return "data"
	case strings.HasSuffix(clientPoint, ":data"):
		return "trailers"
	case strings.HasSuffix(clientPoint, ":trailers"):
		return "error"
	}
	return ""
}

// ioConn fires the instant at the k-th I/O call on the client's connection (io:k), or - iosplit:k -
// delivers only the first part of what the k-th read obtains, fires the instant, and hands out
// the rest afterwards: the context then ends in the middle of whatever frame was arriving.
type ioConn struct {
	net.Conn
	k       *c04Ctl
	mu      sync.Mutex
	pending []byte
	reads   int64
}

func (c *ioConn) tick() {
	n := c.k.ioCount.Add(1)
	if c.k.ioAt > 0 && n == c.k.ioAt {
		c.k.fire(fmt.Sprintf("io:%d", n))
	}
}
func (c *ioConn) Read(p []byte) (int, error) {
	c.mu.Lock()
	if len(c.pending) > 0 {
		c.mu.Unlock()
		// the rest of the split read "has not arrived yet": the reader waits, the context ends,
		// the transport tears the connection down, and the read fails
		for i := 0; i < 200 && !c.k.hasFired(); i++ {
			time.Sleep(50 * time.Microsecond)
		}
		time.Sleep(300 * time.Microsecond)
		c.mu.Lock()
		if c.k.hasFired() {
			c.pending = nil
			c.mu.Unlock()
			return 0, net.ErrClosed
		}
		n := copy(p, c.pending)
		c.pending = c.pending[n:]
		c.mu.Unlock()
		return n, nil
	}
	c.reads++
	split := c.k.splitAt > 0 && c.reads == c.k.splitAt
	c.mu.Unlock()
	c.tick()
	n, err := c.Conn.Read(p)
	if split && n >= 2 {
		keep := n * c.k.splitNum / 8
		if keep < 1 {
			keep = 1
		}
		if keep >= n {
			keep = n - 1
		}
		c.mu.Lock()
		c.pending = append([]byte{}, p[keep:n]...)
		c.mu.Unlock()
		go func() {
			time.Sleep(150 * time.Microsecond) // let the first part be consumed
			c.k.fire(fmt.Sprintf("iosplit:%d", c.k.splitAt))
		}()
		return keep, err
	}
	return n, err
}
func (c *ioConn) Write(p []byte) (int, error) { c.tick(); return c.Conn.Write(p) }

var c04Hdr = metadata.Pairs("zz-h", "hv")
var c04Tlr = metadata.Pairs("zz-t", "tv")

func c04Resp(i int) *pb.Message { return &pb.Message{Count: int32(100 + i), Payload: []byte("resp")} }

// c04Run executes one repetition of the case on the given carrier.
func c04Run(c *c04Case, carrier string, rep int) *c04Obs {
	obs := &c04Obs{Rep: rep, HandlerSawDone: "n/a"}
	goroutinesBefore, _ := libraryGoroutines()
	mctx := newManualCtx(context.Background(), c.Mode == "deadline")
	if c.Cause && c.Mode == "cancel" {
		mctx = newManualCauseCtx(context.Background())
	}
	if c.PastDeadline && c.Mode == "cancel" && strings.HasPrefix(c.Point, "c:before-") {
		mctx.hasDL, mctx.deadline = true, time.Now().Add(-time.Second)
	}
	ctl := &c04Ctl{c: c, ctx: mctx, holdServer: make(chan struct{})}
	if strings.HasPrefix(c.Point, "io:") {
		fmt.Sscanf(c.Point, "io:%d", &ctl.ioAt)
	}
	if strings.HasPrefix(c.Point, "iosplit:") {
		fmt.Sscanf(c.Point, "iosplit:%d/%d", &ctl.splitAt, &ctl.splitNum)
	}
	var mu sync.Mutex
	wantCode := codes.Canceled
	if c.Mode == "deadline" {
		wantCode = codes.DeadlineExceeded
	}
	// how long a handler waits for its context to end: over HTTP the server learns of a vanished
	// client only while it reads the request or once the body is consumed (net/http), so the
	// wait is short there and its outcome is reported, not asserted
	handlerBound := stallBound
	httpObservable := false
	if isHTTP(carrier) {
		handlerBound = 300 * time.Millisecond
		// placements after the handler has consumed the whole request body: net/http watches the
		// connection from then on, so the cancellation must reach the handler
		// (handler-side placements only: a client-side instant says nothing about how far the handler is)
		if strings.HasPrefix(c.Point, "h:send:") || c.Point == "h:return" {
			httpObservable = true
			handlerBound = 5 * time.Second
		}
	}
	handlerDone := make(chan struct{})
	var handlerStarted atomic.Bool
	handlerBody := func(ctx context.Context, stream grpc.ServerStream, kind string) (err error) {
		handlerStarted.Store(true)
		mu.Lock()
		obs.HandlerRuns++
		mu.Unlock()
		defer func() {
			mu.Lock()
			if err == nil {
				obs.HandlerRet = "nil"
			} else {
				obs.HandlerRet = fmt.Sprintf("code=%d", status.Code(err))
				if errors.Is(err, context.Canceled) || errors.Is(err, context.DeadlineExceeded) {
					obs.HandlerRet = "ctx:" + err.Error()
				}
			}
			mu.Unlock()
			close(handlerDone)
		}()
		step := func(name string) error {
			ctl.at("h:" + name)
			if c.Attitude == "return-ctx-err" || c.Attitude == "return-wrapped-ctx-err" {
				if e := ctx.Err(); e != nil {
					if c.Attitude == "return-wrapped-ctx-err" {
						return fmt.Errorf("backend lookup failed: %w", e)
					}
					return e
				}
			}
			if c.Attitude == "block" && ctl.hasFired() {
				select {
				case <-ctx.Done():
					mu.Lock()
					obs.HandlerSawDone = "yes"
					mu.Unlock()
					return ctx.Err()
				case <-time.After(handlerBound):
					mu.Lock()
					obs.HandlerSawDone = "no"
					mu.Unlock()
					return status.Error(codes.Internal, "handler context never cancelled")
				}
			}
			return nil
		}
		if e := step("entry"); e != nil {
			return e
		}
		if stream != nil {
			n := -1
			if !clientStreaming(kind) {
				n = 1
			}
			for i := 0; n < 0 || i < n; i++ {
				if e := step(fmt.Sprintf("recv:%d", i)); e != nil {
					return e
				}
				if rerr := stream.RecvMsg(new(pb.Message)); rerr != nil {
					break
				}
			}
			if c.Attitude == "extra-recv" {
				// one more receive than the client will ever satisfy: only the end of the call frees it
				done := make(chan error, 1)
				go func() { done <- stream.RecvMsg(new(pb.Message)) }()
				select {
				case <-done:
				case <-time.After(stallBound):
					mu.Lock()
					obs.Fault = "handler RecvMsg still blocked " + stallBound.String() + " after the instant"
					mu.Unlock()
				}
			}
			stream.SetHeader(c04Hdr)
			stream.SetTrailer(c04Tlr)
			for j := 0; j < c.NResp; j++ {
				if e := step(fmt.Sprintf("send:%d", j)); e != nil {
					return e
				}
				if serr := stream.SendMsg(c04Resp(j)); serr != nil && c.Attitude == "return-send-err" {
					return serr // what most handlers do: hand the send error back
				}
			}
		} else {
			grpc.SetHeader(ctx, c04Hdr)
			grpc.SetTrailer(ctx, c04Tlr)
		}
		if e := step("return"); e != nil {
			return e
		}
		return statusOfCode(c.Final)
	}
	svc := &Service{
		Unary: func(ctx context.Context, req *pb.Message) (*pb.Message, error) {
			if err := handlerBody(ctx, nil, kUnary); err != nil {
				return nil, err
			}
			return c04Resp(0), nil
		},
		Stream: func(kind string, stream grpc.ServerStream) error {
			return handlerBody(stream.Context(), stream, kind)
		},
	}
	copts := carrierOpts{}
	if isHTTP(carrier) {
		copts.WrapConn = func(nc net.Conn) net.Conn { return &ioConn{Conn: nc, k: ctl} }
	}
	car := newCarrier(carrier, newServiceDesc(), svc, copts)
	defer car.Close()
	ctx := context.WithValue(context.Context(mctx), c04Key{}, ctl)
	var hdr, tlr metadata.MD
	var credOpts []grpc.CallOption
	if c.Creds {
		credOpts = append(credOpts, grpc.PerRPCCredentials(c12Creds{}))
	}
	record := func(s string) {
		mu.Lock()
		obs.Results = append(obs.Results, s)
		mu.Unlock()
	}
	var trailerOf func() metadata.MD
	// judge one receive-like result obtained after (or while) the instant
	judge := func(what string, err error, completeOK bool) {
		if err == nil {
			return
		}
		st, isStatus := status.FromError(err)
		mu.Lock()
		ret := obs.HandlerRet
		mu.Unlock()
		switch {
		case err == io.EOF:
			if !completeOK {
				mu.Lock()
				if obs.Fault == "" {
					obs.Fault = fmt.Sprintf("%s returned io.EOF (success) although the call did not complete: handler returned %q, %d of %d responses received", what, ret, obs.Received, c.NResp)
				}
				mu.Unlock()
			}
		case !isStatus:
			mu.Lock()
			if obs.Fault == "" {
				obs.Fault = fmt.Sprintf("%s returned a non-status error after the %s: %T %v", what, c.Mode, err, err)
			}
			mu.Unlock()
		case st.Code() == wantCode:
		case c.Final != 0 && uint32(st.Code()) == c.Final:
			// the handler's own final status: the real result, so it must be complete (trailers)
			if trailerOf != nil {
				if t := trailerOf(); len(t.Get("zz-t")) != 1 {
					mu.Lock()
					if obs.Fault == "" {
						obs.Fault = fmt.Sprintf("%s returned the handler's status %v but the trailers the handler set are missing (a mixture of the real result and the %s)", what, st.Code(), c.Mode)
					}
					mu.Unlock()
				}
			}
		default:
			mu.Lock()
			if obs.Fault == "" {
				obs.Fault = fmt.Sprintf("%s returned %v after the %s; want code %v (or the call's real result)", what, err, c.Mode, wantCode)
			}
			mu.Unlock()
		}
	}
	stall := guardFor(stallBound+5*time.Second, "client program", func() {
		if c.Kind == kUnary {
			trailerOf = func() metadata.MD { return tlr }
			ctl.at("c:before-invoke")
			out := new(pb.Message)
			err := car.Conn.Invoke(ctx, mUnary, &pb.Message{Count: 1}, out, append(credOpts, grpc.Header(&hdr), grpc.Trailer(&tlr))...)
			record("invoke: " + errStr(err))
			if err == nil {
				mu.Lock()
				obs.Received = 1
				obs.HdrOK = len(hdr.Get("zz-h")) == 1
				obs.TlrOK = len(tlr.Get("zz-t")) == 1
				if out.Count != 100 || string(out.Payload) != "resp" {
					obs.Fault = fmt.Sprintf("Invoke returned nil with a wrong/incomplete response: %v", out)
				} else if !obs.HdrOK || !obs.TlrOK {
					obs.Fault = fmt.Sprintf("Invoke returned nil (success) but headers delivered=%v trailers delivered=%v", obs.HdrOK, obs.TlrOK)
				}
				mu.Unlock()
				return
			}
			if ctl.hasFired() {
				judge("Invoke", err, false)
			} else {
				judge("Invoke", err, false)
			}
			return
		}
		ctl.at("c:before-newstream")
		cs, err := car.Conn.NewStream(ctx, streamDescOf(c.Kind), methodOf(c.Kind), append(credOpts, grpc.Header(&hdr), grpc.Trailer(&tlr))...)
		if err != nil {
			record("newstream: " + errStr(err))
			judge("NewStream", err, false)
			return
		}
		trailerOf = cs.Trailer
		nreq := c.NReq
		if !clientStreaming(c.Kind) {
			nreq = 1
		}
		for i := 0; i < nreq; i++ {
			ctl.at(fmt.Sprintf("c:send:%d", i))
			if err := cs.SendMsg(&pb.Message{Count: int32(i + 1)}); err != nil {
				record(fmt.Sprintf("send %d: %s", i, errStr(err)))
				break
			}
		}
		if c.Attitude != "extra-recv" {
			ctl.at("c:close")
			cs.CloseSend()
		}
		if c.Attitude == "extra-recv" && !strings.HasPrefix(c.Point, "h:") {
			// nobody else will: the instant falls while the handler sits in its extra receive
			time.Sleep(300 * time.Microsecond)
			ctl.fire("c:while-handler-blocked-in-recv")
		}
		if c.HeaderFirst {
			ctl.at("c:header")
			var herr error
			if s := guardFor(stallBound, "Header", func() { _, herr = cs.Header() }); s != "" {
				mu.Lock()
				obs.Fault = "Header() did not return within " + stallBound.String() + " (instant fired: " + fmt.Sprint(ctl.hasFired()) + ")\n" + s
				mu.Unlock()
				return
			}
			record("header: " + errStr(herr))
		}
		for j := 0; j < c.NResp+3; j++ {
			ctl.at(fmt.Sprintf("c:recv:%d", j))
			m := new(pb.Message)
			var err error
			if s := guardFor(stallBound, "RecvMsg", func() { err = cs.RecvMsg(m) }); s != "" {
				mu.Lock()
				obs.Fault = "RecvMsg did not return within " + stallBound.String() + " (instant fired: " + fmt.Sprint(ctl.hasFired()) + ")\n" + s
				mu.Unlock()
				return
			}
			record(fmt.Sprintf("recv %d: %s", j, errStr(err)))
			if err == nil {
				mu.Lock()
				want := c04Resp(obs.Received)
				if m.Count != want.Count || string(m.Payload) != "resp" {
					if obs.Fault == "" {
						obs.Fault = fmt.Sprintf("RecvMsg #%d delivered %v, the handler's message at that position is %v", j, m, want)
					}
				}
				obs.Received++
				mu.Unlock()
				if !serverStreaming(c.Kind) {
					// a single-response stream hands out its message only together with an OK outcome
					// (CloseAndRecv returning nil is "the call succeeded"): the handler must have returned nil
					select {
					case <-handlerDone:
					case <-time.After(2 * time.Second):
					}
					mu.Lock()
					if obs.Fault == "" && obs.HandlerRet != "nil" {
						obs.Fault = fmt.Sprintf("RecvMsg #%d of a single-response stream returned nil (success) but the handler returned %q (instant fired: %v)", j, obs.HandlerRet, ctl.hasFired())
					}
					mu.Unlock()
				}
				continue
			}
			// wait (briefly) for the handler's own verdict, so that a genuine completion can be told apart
			if handlerStarted.Load() {
				select {
				case <-handlerDone:
				case <-time.After(50 * time.Millisecond):
				}
			}
			mu.Lock()
			complete := obs.HandlerRet == "nil" && obs.Received == c.NResp
			if !serverStreaming(c.Kind) {
				complete = obs.HandlerRet == "nil" && obs.Received == 1
			}
			mu.Unlock()
			judge(fmt.Sprintf("RecvMsg #%d", j), err, complete)
			if err == io.EOF && complete {
				// success: trailers must be there
				if t := cs.Trailer(); len(t.Get("zz-t")) != 1 {
					mu.Lock()
					if obs.Fault == "" {
						obs.Fault = "stream reported success (io.EOF) but the trailers are missing"
					}
					mu.Unlock()
				}
			}
			// a second receive after the final one must give a status again, not hang
			var err2 error
			if s := guardFor(stallBound, "RecvMsg after the end", func() { err2 = cs.RecvMsg(new(pb.Message)) }); s != "" {
				mu.Lock()
				obs.Fault = "RecvMsg issued after the final result did not return\n" + s
				mu.Unlock()
				return
			}
			record("recv again: " + errStr(err2))
			mu.Lock()
			complete = obs.HandlerRet == "nil" && obs.Received == c.NResp
			if !serverStreaming(c.Kind) {
				complete = obs.HandlerRet == "nil" && obs.Received == 1
			}
			mu.Unlock()
			if err2 == nil {
				mu.Lock()
				if obs.Fault == "" {
					obs.Fault = "RecvMsg delivered a message after the final result"
				}
				mu.Unlock()
			} else {
				judge("RecvMsg (repeated)", err2, complete)
			}
			return
		}
	})
	if stall != "" && obs.Fault == "" {
		obs.Fault = stall
	}
	// make sure the context ends, then the handler must see it (where observable)
	ctl.fire("end-of-case")
	if !handlerStarted.Load() {
		time.Sleep(500 * time.Microsecond) // a request still in flight may yet start it
	}
	if handlerStarted.Load() {
		wait := 2 * time.Second
		if c.Attitude == "block" {
			wait = handlerBound + time.Second
		}
		select {
		case <-handlerDone:
		case <-time.After(wait):
		}
	}
	mu.Lock()
	defer mu.Unlock()
	ctl.mu.Lock()
	obs.Fired, obs.FiredAt = ctl.fired, ctl.firedAt
	ctl.mu.Unlock()
	if obs.Fault == "" && obs.HandlerSawDone == "no" {
		handlerObservable := carrier == cInproc || carrier == cGRPC || httpObservable
		if handlerObservable {
			obs.Fault = "the handler's context was not cancelled within " + handlerBound.String() + " of the caller's " + c.Mode
		}
	}
	if obs.Fault == "" && (c.Attitude == "return-ctx-err" || c.Attitude == "return-wrapped-ctx-err") && strings.HasPrefix(obs.HandlerRet, "ctx:") {
		// the handler returned a context error: the client must see the matching code (never another one)
		for _, r := range obs.Results {
			if strings.Contains(r, "code = ") && !strings.Contains(r, "code = "+wantCode.String()) && !strings.Contains(r, "recv again") {
				obs.Fault = fmt.Sprintf("handler returned %s, client saw %q", obs.HandlerRet, r)
			}
		}
	}
	if obs.Fault == "" && carrier == cInproc && obs.HandlerRet != "" {
		// the call is over on both sides (context ended, handler returned): nothing of it stays behind
		deadline := time.Now().Add(3 * time.Second)
		for {
			n, dump := libraryGoroutines()
			if n <= goroutinesBefore {
				break
			}
			if time.Now().After(deadline) {
				obs.Fault = fmt.Sprintf("%d library goroutine(s) still alive 3s after the context ended and the handler returned (%s):\n%s", n-goroutinesBefore, obs.HandlerRet, dump)
				break
			}
			time.Sleep(200 * time.Microsecond)
		}
	}
	return obs
}

// c04ServerDeadline: the deadline reaches the handler first. The caller's deadline travels in the request;
// the server's timer (whole units, rounded down) fires a little before the caller's own would, the handler
// honours it and returns its context's error while the caller's context is still live. The caller must see
// DeadlineExceeded as a status - the handler's own outcome - after an intact prefix of the responses.
func c04ServerDeadline(c c04Case) *Outcome {
	o := &Outcome{NonTrivial: true}
	o.class("carrier=%s/kind=%s", c.Carrier, c.Kind)
	o.class("mode=server-deadline")
	ctx := newManualCtx(context.Background(), true)
	ctx.deadline = time.Now().Add(time.Duration(c.DeadlineUs) * time.Microsecond)
	defer ctx.fire()
	var hmu sync.Mutex
	hret := ""
	hdone := make(chan struct{})
	var hdoneOnce sync.Once
	wait := func(hctx context.Context) error {
		defer hdoneOnce.Do(func() { close(hdone) })
		select {
		case <-hctx.Done():
			hmu.Lock()
			hret = hctx.Err().Error()
			hmu.Unlock()
			if c.Attitude == "return-status" {
				return status.FromContextError(hctx.Err()).Err()
			}
			if c.Attitude == "return-wrapped-ctx-err" {
				return fmt.Errorf("backend lookup failed: %w", hctx.Err())
			}
			return hctx.Err()
		case <-time.After(stallBound / 2):
			return status.Error(codes.Internal, "harness: the caller's deadline never reached the handler")
		}
	}
	svc := &Service{
		Unary: func(hctx context.Context, req *pb.Message) (*pb.Message, error) { return nil, wait(hctx) },
		Stream: func(kind string, stream grpc.ServerStream) error {
			if c.OpenReq {
				// the request side stays open: take what was sent and then wait for the deadline
				for i := 0; i < c.NReq; i++ {
					if err := stream.RecvMsg(new(pb.Message)); err != nil {
						hdoneOnce.Do(func() { close(hdone) })
						return status.Errorf(codes.Internal, "harness: request %d of %d: %v", i, c.NReq, err)
					}
				}
				return wait(stream.Context())
			}
			for stream.RecvMsg(new(pb.Message)) == nil {
				if !clientStreaming(kind) {
					break
				}
			}
			for i := 0; i < c.NResp && serverStreaming(kind); i++ {
				if err := stream.SendMsg(c04Resp(i)); err != nil {
					return err
				}
			}
			return wait(stream.Context())
		},
	}
	opts := carrierOpts{}
	if c.ServerLimit {
		o.class("server-limit")
		opts.WrapHandler = func(h http.Handler) http.Handler {
			return http.HandlerFunc(func(w http.ResponseWriter, r *http.Request) {
				lctx, cancel := context.WithTimeout(r.Context(), time.Hour)
				defer cancel()
				h.ServeHTTP(w, r.WithContext(lctx))
			})
		}
	}
	if c.OpenReq {
		o.class("request-side-open")
	}
	car := newCarrier(c.Carrier, newServiceDesc(), svc, opts)
	defer car.Close()
	var results []string
	var final error
	stall := guard("call", func() {
		if c.Kind == kUnary {
			final = car.Conn.Invoke(ctx, mUnary, &pb.Message{}, new(pb.Message))
			return
		}
		cs, err := car.Conn.NewStream(ctx, streamDescOf(c.Kind), methodOf(c.Kind))
		if err != nil {
			final = err
			return
		}
		for i := 0; i < c.NReq; i++ {
			cs.SendMsg(&pb.Message{Count: int32(i)})
		}
		if c.OpenReq {
			// net/http hands over the reply only once the request has ended (the half-duplex limitation recorded
			// under C05), so the caller half-closes as soon as the handler is through
			select {
			case <-hdone:
			case <-time.After(stallBound/2 + time.Second):
			}
		}
		cs.CloseSend()
		for i := 0; ; i++ {
			m := new(pb.Message)
			if err := cs.RecvMsg(m); err != nil {
				final = err
				return
			}
			results = append(results, fmt.Sprint(m.Count))
			if !proto.Equal(m, c04Resp(i)) {
				final = fmt.Errorf("harness: response %d is %v", i, m)
				return
			}
		}
	})
	hmu.Lock()
	o.Observed = map[string]interface{}{"final": errStr(final), "received": results, "handler_ctx_err": hret}
	hmu.Unlock()
	if stall != "" {
		return o.failf("%s/%s: deadline in %dus, handler honours it: %s", c.Carrier, c.Kind, c.DeadlineUs, stall)
	}
	st, ok := status.FromError(final)
	if final == nil || !ok || st.Code() != codes.DeadlineExceeded {
		return o.failf("%s/%s: deadline %dus ahead reached the handler first, handler returned its context's error (%s): caller got %s after %d messages, want a DeadlineExceeded status", c.Carrier, c.Kind, c.DeadlineUs, c.Attitude, errStr(final), len(results))
	}
	return o
}

// c04SubOp: see c04Case.SubOp.
func c04SubOp(c c04Case) *Outcome {
	o := &Outcome{NonTrivial: true}
	o.class("carrier=%s/kind=%s", c.Carrier, c.Kind)
	o.class("mode=sub-operation/%s/%s", c.SubOp, c.Attitude)
	want := codes.Canceled
	if c.SubOp == "timeout" {
		want = codes.DeadlineExceeded
	}
	giveUp := func(hctx context.Context) error {
		sub, cancel := context.WithCancel(hctx)
		if c.SubOp == "timeout" {
			cancel()
			sub, cancel = context.WithTimeout(hctx, 50*time.Microsecond)
		} else {
			cancel()
		}
		defer cancel()
		<-sub.Done()
		switch c.Attitude {
		case "return-status":
			return status.FromContextError(sub.Err()).Err()
		case "return-wrapped-ctx-err":
			return fmt.Errorf("lookup backend %q: attempt 2: %w", "10.0.0.7:443", sub.Err())
		}
		return sub.Err()
	}
	svc := &Service{
		Unary: func(hctx context.Context, req *pb.Message) (*pb.Message, error) { return nil, giveUp(hctx) },
		Stream: func(kind string, stream grpc.ServerStream) error {
			for stream.RecvMsg(new(pb.Message)) == nil {
				if !clientStreaming(kind) {
					break
				}
			}
			for i := 0; i < c.NResp && serverStreaming(kind); i++ {
				if err := stream.SendMsg(c04Resp(i)); err != nil {
					return err
				}
			}
			return giveUp(stream.Context())
		},
	}
	car := newCarrier(c.Carrier, newServiceDesc(), svc, carrierOpts{})
	defer car.Close()
	var results []string
	var final error
	stall := guard("call", func() {
		ctx, cancel := context.WithCancel(context.Background())
		defer cancel()
		if c.Kind == kUnary {
			final = car.Conn.Invoke(ctx, mUnary, &pb.Message{}, new(pb.Message))
			return
		}
		cs, err := car.Conn.NewStream(ctx, streamDescOf(c.Kind), methodOf(c.Kind))
		if err != nil {
			final = err
			return
		}
		for i := 0; i < c.NReq; i++ {
			cs.SendMsg(&pb.Message{Count: int32(i)})
		}
		cs.CloseSend()
		for {
			m := new(pb.Message)
			if err := cs.RecvMsg(m); err != nil {
				final = err
				return
			}
			results = append(results, fmt.Sprint(m.Count))
		}
	})
	o.Observed = map[string]interface{}{"final": errStr(final), "received": results}
	if stall != "" {
		return o.failf("%s/%s: handler gives up on a sub-operation (%s): %s", c.Carrier, c.Kind, c.SubOp, stall)
	}
	st, ok := status.FromError(final)
	if final == nil || final == io.EOF || !ok || st.Code() != want {
		return o.failf("%s/%s: the handler's sub-operation ended (%s) and the handler returned that context's error (%s) - the caller's context is alive, no deadline: caller got %s after %d messages, want a %v status", c.Carrier, c.Kind, c.SubOp, c.Attitude, errStr(final), len(results), want)
	}
	return o
}

func propC04(c c04Case) *Outcome {
	if c.Mode == "sub-operation" {
		return c04SubOp(c)
	}
	if c.Mode == "server-deadline" {
		return c04ServerDeadline(c)
	}
	o := &Outcome{}
	o.class("carrier=%s/kind=%s", c.Carrier, c.Kind)
	o.class("mode=%s/attitude=%s", c.Mode, c.Attitude)
	if c.Creds {
		o.class("with-per-rpc-credentials")
	}
	if c.Cause {
		o.class("cancel-with-cause")
	}
	pclass := c.Point
	if i := strings.LastIndex(pclass, ":"); i > 0 && !strings.HasPrefix(pclass, "hook:") {
		pclass = pclass[:i]
	}
	if strings.HasPrefix(c.Point, "iosplit:") {
		pclass = "iosplit"
	}
	o.class("point=%s", pclass)
	if strings.HasPrefix(c.Point, "hook:") {
		c04InstallHook()
	}
	reps := c.Reps
	if reps < 1 {
		reps = 1
	}
	t0 := time.Now()
	defer func() {
		if d := time.Since(t0); d > 300*time.Millisecond && os.Getenv("VERIF_SLOW") != "" {
			fmt.Fprintf(os.Stderr, "SLOW %v %+v\n", d, c)
		}
	}()
	var all []*c04Obs
	for r := 0; r < reps; r++ {
		obs := c04Run(&c, c.Carrier, r)
		o.Sub++
		all = append(all, obs)
		if obs.Fired && obs.FiredAt != "end-of-case" {
			o.NonTrivial = true
		}
		if obs.Fault != "" {
			o.Observed = obs
			if sig := c04Known(&c, obs); sig != "" {
				o.Known = append(o.Known, sig)
				continue
			}
			// is the oracle right? the standard transport must satisfy it on the same case
			if !strings.HasPrefix(c.Point, "hook:") && !strings.HasPrefix(c.Point, "io") {
				ref := c04Run(&c, cGRPC, r)
				if ref.Fault != "" {
					o.Inconclusive = fmt.Sprintf("reference transport fails the oracle too (%s); SUT: %s", firstLine(ref.Fault), firstLine(obs.Fault))
					o.Observed = map[string]interface{}{"sut": obs, "ref": ref}
					return o
				}
			}
			return o.failf("%s/%s %s at %s (%s, rep %d): %s", c.Carrier, c.Kind, c.Mode, c.Point, c.Attitude, r, firstLine(obs.Fault))
		}
	}
	if len(all) > 0 {
		o.Observed = all[len(all)-1]
	}
	return o
}

func c04Known(c *c04Case, obs *c04Obs) string { return "" }

// c04Points lists the instants that make sense for a script.
func c04Points(carrier, kind string, nreq, nresp int, attitude string, headerFirst ...bool) []string {
	var ps []string
	if kind == kUnary {
		ps = []string{"c:before-invoke", "h:entry", "h:return"}
		if carrier == cInproc {
			ps = append(ps, "hook:unary.server.start", "hook:unary.server.beforeWrite:headers", "hook:unary.server.beforeWrite:data", "hook:unary.server.beforeWrite:trailers", "hook:unary.server.beforeWrite:error",
				"hook:unary.client.afterRead:headers", "hook:unary.client.afterRead:data", "hook:unary.client.afterRead:trailers",
				"hook:unary.client.afterRead:headers+hold", "hook:unary.client.afterRead:data+hold", "hook:unary.client.afterRead:trailers+hold")
		}
		return ps
	}
	ps = []string{"c:before-newstream", "h:entry", "h:return"}
	n := nreq
	if !clientStreaming(kind) {
		n = 1
	}
	for i := 0; i < n; i++ {
		ps = append(ps, fmt.Sprintf("c:send:%d", i), fmt.Sprintf("h:recv:%d", i))
	}
	if clientStreaming(kind) {
		ps = append(ps, fmt.Sprintf("h:recv:%d", n)) // the receive that sees the end of the request stream
	}
	ps = append(ps, "c:close")
	if len(headerFirst) > 0 && headerFirst[0] {
		ps = append(ps, "c:header")
	}
	for j := 0; j < nresp; j++ {
		ps = append(ps, fmt.Sprintf("c:recv:%d", j), fmt.Sprintf("h:send:%d", j))
	}
	ps = append(ps, fmt.Sprintf("c:recv:%d", nresp))
	if isHTTP(carrier) {
		for k := 1; k <= 12; k++ {
			ps = append(ps, fmt.Sprintf("io:%d", k))
		}
		for k := 1; k <= 6; k++ {
			for _, j := range []int{1, 4, 7} {
				ps = append(ps, fmt.Sprintf("iosplit:%d/%d", k, j))
			}
		}
	}
	return ps
}

func genC04(t *rapid.T) c04Case {
	c := c04Case{Carrier: rapid.SampledFrom(sutCarriers).Draw(t, "carrier"), Kind: rapid.SampledFrom(allKinds).Draw(t, "kind")}
	if isHTTP(c.Carrier) && rapid.IntRange(0, 11).Draw(t, "serverdeadline") == 0 {
		c.Mode = "server-deadline"
		c.Attitude = rapid.SampledFrom([]string{"return-ctx-err", "return-status", "return-wrapped-ctx-err"}).Draw(t, "sdattitude")
		c.NReq, c.NResp = rapid.IntRange(0, 2).Draw(t, "sdnreq"), rapid.IntRange(0, 2).Draw(t, "sdnresp")
		// a fraction of a millisecond on top of whole ones: the timeout header is cut to whole units
		c.DeadlineUs = rapid.IntRange(3, 30).Draw(t, "sdms")*1000 + rapid.SampledFrom([]int{0, 500, 950}).Draw(t, "sdus")
		if rapid.IntRange(0, 4).Draw(t, "sdsubms") == 0 {
			// a budget that is nearly used up when the call is made: less than a millisecond is still a deadline
			c.DeadlineUs = rapid.SampledFrom([]int{200, 600, 950}).Draw(t, "sdsubmsus")
		}
		c.ServerLimit = rapid.IntRange(0, 2).Draw(t, "serverlimit") == 0
		c.OpenReq = clientStreaming(c.Kind) && rapid.Bool().Draw(t, "openreq")
		return c
	}
	if rapid.IntRange(0, 19).Draw(t, "subop") == 0 {
		c.Mode = "sub-operation"
		c.SubOp = rapid.SampledFrom([]string{"cancel", "cancel", "timeout"}).Draw(t, "subopkind")
		c.Attitude = rapid.SampledFrom([]string{"return-ctx-err", "return-status", "return-wrapped-ctx-err"}).Draw(t, "subopattitude")
		c.NReq, c.NResp = rapid.IntRange(0, 2).Draw(t, "subopnreq"), rapid.IntRange(0, 2).Draw(t, "subopnresp")
		return c
	}
	c.Mode = rapid.SampledFrom([]string{"cancel", "cancel", "deadline"}).Draw(t, "mode")
	c.Attitude = rapid.SampledFrom([]string{"ignore", "ignore", "return-ctx-err", "return-wrapped-ctx-err", "block", "return-send-err"}).Draw(t, "attitude")
	c.NReq = rapid.IntRange(0, 3).Draw(t, "nreq")
	c.NResp = rapid.IntRange(0, 3).Draw(t, "nresp")
	if c.Kind == kClientStream {
		c.NResp = 1
	}
	if c.Kind == kUnary {
		c.NResp = 1
	}
	c.Final = rapid.SampledFrom([]uint32{0, 0, 0, 9}).Draw(t, "final")
	c.Creds = rapid.IntRange(0, 3).Draw(t, "creds") == 0
	c.Cause = c.Mode == "cancel" && rapid.IntRange(0, 2).Draw(t, "cause") == 0
	if clientStreaming(c.Kind) && c.Carrier == cInproc && rapid.IntRange(0, 9).Draw(t, "extra") == 0 {
		c.Attitude = "extra-recv"
	}
	c.HeaderFirst = c.Kind != kUnary && c.Attitude != "extra-recv" && rapid.IntRange(0, 3).Draw(t, "headerfirst") == 0
	ps := c04Points(c.Carrier, c.Kind, c.NReq, c.NResp, c.Attitude, c.HeaderFirst)
	c.Point = rapid.SampledFrom(ps).Draw(t, "point")
	if c.Mode == "cancel" && rapid.IntRange(0, 15).Draw(t, "pastdeadline") == 0 {
		// (drawn together with the placement it needs)
		c.PastDeadline, c.Cause = true, false
		c.Point = "c:before-newstream"
		if c.Kind == kUnary {
			c.Point = "c:before-invoke"
		}
	}
	if c.Attitude == "extra-recv" {
		c.Point = "c:while-handler-blocked-in-recv"
	}
	c.Reps = 1
	if strings.HasPrefix(c.Point, "hook:") {
		c.Reps = rapid.IntRange(4, 16).Draw(t, "reps")
		if c.Attitude == "block" {
			c.Attitude = "ignore"
		}
	}
	return c
}

// the placement grid for small scripts, enumerated completely in the thorough tier
func c04Grid() []c04Case {
	var cs []c04Case
	for _, car := range sutCarriers {
		for _, kind := range allKinds {
			for _, mode := range []string{"cancel", "deadline"} {
				for _, att := range []string{"ignore", "return-ctx-err", "block", "return-send-err"} {
					for nreq := 0; nreq <= 2; nreq++ {
						for nresp := 0; nresp <= 2; nresp++ {
							if (kind == kUnary || kind == kClientStream) && nresp != 1 {
								continue
							}
							if !clientStreaming(kind) && nreq != 1 {
								continue
							}
							for _, p := range c04Points(car, kind, nreq, nresp, att) {
								c := c04Case{Carrier: car, Kind: kind, Mode: mode, Attitude: att, NReq: nreq, NResp: nresp, Point: p, Reps: 1}
								if strings.HasPrefix(p, "hook:") {
									if att == "block" {
										continue
									}
									c.Reps = 8
								}
								cs = append(cs, c)
							}
						}
					}
				}
			}
		}
	}
	return cs
}

func init() { registerReplay("C04", propC04) }

const c04Rule = "rapid-generated (thorough: exhaustive grid for scripts of <=2 messages per direction): carrier x RPC kind x {cancel, deadline (harness-owned context whose Done the harness closes)} x handler attitude (ignores its context, returns ctx.Err() when it notices, blocks on ctx.Done(), blocked in an extra RecvMsg) x placement of the instant: before the call, before each client step, synchronously at each handler step, at the in-process unary schedule points (server start, before each frame write, after each frame read, optionally holding the server until the client is past the instant; repeated 4..16 times because Go's select chooses randomly), at the k-th I/O call on the client's connection (HTTP); " +
	"oracle: every receive/Invoke at or after the instant returns within 20 s with either the complete real result (next message of the model; io.EOF/nil only if the handler returned nil and everything incl. headers and trailers was delivered; the handler's own status) or a status error with code Canceled/DeadlineExceeded - never a non-status error, never success with missing data; repeated receives keep failing; the handler's context ends within the bound (in-process); a handler returning its context error gives the client the matching code; grpc-go arbitrates deviations at script-level placements; " +
	"also generated since the seeded rounds: wrapped context errors, handlers returning their send error, iosplit placements (context ends inside a frame), mode server-deadline (a deadline 3..30 ms ahead that only the server's timer sees: handler returns its context's error, caller must get a DeadlineExceeded status), per-RPC credentials on the call at every placement, the per-method HTTP server form, and: a nil RecvMsg on a single-response stream implies the handler returned nil; " +
	"mode sub-operation (all carriers and kinds): the handler gives up on a context of its own derived from the call's (cancelled, or timed out after 50 us) and returns that context's error plain, wrapped with %w in a message with colons, or as a status, the caller's context alive and without deadline: Canceled / DeadlineExceeded as a status; " +
	"non-trivial = the instant fell inside the call; distinct by case hash"

func TestC04(t *testing.T) {
	rec("C04").rule = c04Rule
	if thorough() && envInt("VERIF_SHARD", 0) == 0 {
		rec("C04").exhaust = true
		runEnum(t, "C04", c04Grid(), propC04)
		if t.Failed() {
			return
		}
	}
	runProp(t, "C04", c04Rule, genC04, propC04)
}
