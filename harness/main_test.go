package harness

import (
	"os"
	"testing"
)

func TestMain(m *testing.M) {
	loadKnownFindings()
	code := m.Run()
	flushEvidence()
	os.Exit(code)
}
