package harness

// Cooperative scripted RPCs: one generated client program and one generated handler program,
// executed on any carrier, with a model that predicts the observable outcome from the two
// programs alone. Used by C01, C02, C03, C08 (and as the reference cross-check).

import (
	"context"
	"encoding/json"
	"fmt"
	"io"
	"net/http"
	"runtime/debug"
	"strings"
	"sync"
	"time"

	"google.golang.org/grpc"
	"google.golang.org/grpc/codes"
	"google.golang.org/grpc/metadata"
	"google.golang.org/grpc/status"
	"google.golang.org/protobuf/proto"

	"github.com/fullstorydev/grpchan"
	pb "github.com/fullstorydev/grpchan/grpchantesting"
)

type HOp struct {
	Op  string // sethdr | sendhdr | settlr | send
	MD  MDSpec `json:",omitempty"`
	Msg int    `json:",omitempty"` // index into Resps for send
}

type Script struct {
	Kind      string
	ReqMD     MDSpec    `json:",omitempty"` // metadata.NewOutgoingContext
	ReqMDMore MDSpec    `json:",omitempty"` // metadata.AppendToOutgoingContext
	Reqs      []MsgSpec // what the client sends (exactly 1 for unary / server-stream)
	Resps     []MsgSpec // pool of messages the handler sends
	RecvN     int       // client-streaming kinds: -1 = receive until EOF, n = receive n messages then go on
	HOps      []HOp
	UnaryResp int     // unary: index into Resps of the returned message
	Final     ErrSpec // what the handler returns
	HeaderAt  int     // client calls Header() before its HeaderAt-th RecvMsg (0 = before the first); -1 = never
	NHdrOpts  int     // number of grpc.Header call options
	NTlrOpts  int     // number of grpc.Trailer call options
	// Spoof (0 = off): before anything else the handler attaches, as ordinary header and trailer metadata,
	// the keys the HTTP transport itself uses for the outcome of a unary call ("x-grpc-status" saying code
	// Spoof-1, "x-grpc-details"). Application metadata never changes the outcome the caller sees.
	Spoof int `json:",omitempty"`
	// SpoofCase: how the handler spells those keys: 0 = lower case (metadata.Pairs), 1 = canonical HTTP form
	// ("X-Grpc-Status", what forwarding an upstream reply's http.Header as metadata yields), 2 = upper case
	SpoofCase int `json:",omitempty"`
	// StaticMD: the handler passes the same metadata objects (package-level "static headers") on every
	// call instead of fresh ones; what one call does with them must not show up in the next
	StaticMD bool `json:",omitempty"`
	// Deadline: the caller's context has a (distant) deadline; nothing else about the call changes
	Deadline bool `json:",omitempty"`
	// Chunked (HTTP carriers): something between handler and wire (compressing middleware, re-chunking proxy)
	// removes the Content-Length of replies, so they arrive with unknown length
	Chunked bool `json:",omitempty"`
	// RespWithErr: a failing unary handler returns a response value next to its error (return resp, err)
	RespWithErr bool `json:",omitempty"`
	// CtxAPI: streaming handlers set headers and trailers through the context-based API
	// (grpc.SetHeader / grpc.SendHeader / grpc.SetTrailer with the stream's context) instead of the stream's methods
	CtxAPI bool `json:",omitempty"`
	// OptReuse: the variables given to grpc.Header / grpc.Trailer hold metadata of an earlier call already,
	// and the first header variable is passed twice; each ends up holding this call's metadata, once
	OptReuse bool `json:",omitempty"`
	// RegAllBidi: the service is registered with a description that marks every stream method as
	// {client,server}-streaming (what generic proxies and hand-written registrations do); callers keep using the
	// method's real shape, and it is the caller's descriptor that says whether one response is expected
	RegAllBidi bool `json:",omitempty"`
	// Wrap: the client goes through grpchan.InterceptClientConn with interceptors that only stamp the request metadata ("u" = a unary
	// interceptor only, "s" = a stream interceptor only, "us" = both): a wrapper that changes nothing about a call
	Wrap string `json:",omitempty"`
	// OneRecv (single-response streams): the client looks at the trailers right after its one successful receive,
	// as code using the generated CloseAndRecv does, not only after further receives
	OneRecv bool `json:",omitempty"`
	// PreSendHdr: before the scripted call, another unary call is served by the same server whose handler sends its
	// headers explicitly (grpc.SendHeader); it is none of the scripted call's business
	PreSendHdr bool `json:",omitempty"`
	// SlowFinish (HTTP carriers): something in front of the library's handlers takes a few milliseconds after the
	// handler has returned (a decorating Mux function, access logging): the reply body ends that much later than
	// its last byte was flushed
	SlowFinish bool `json:",omitempty"`
	// SrvInt: the carrier itself (in-process channel, HTTP server) is configured with pass-through server
	// interceptors (logging, metrics): they change nothing about the outcome of a call
	SrvInt bool `json:",omitempty"`
}

// chunkedWriter drops Content-Length and flushes the header, so the reply goes out chunked.
type chunkedWriter struct {
	http.ResponseWriter
	wrote bool
}

func (w *chunkedWriter) WriteHeader(code int) {
	if !w.wrote {
		w.wrote = true
		w.Header().Del("Content-Length")
	}
	w.ResponseWriter.WriteHeader(code)
	if f, ok := w.ResponseWriter.(http.Flusher); ok {
		f.Flush()
	}
}

func (w *chunkedWriter) Write(b []byte) (int, error) {
	if !w.wrote {
		w.WriteHeader(200)
	}
	return w.ResponseWriter.Write(b)
}

func (w *chunkedWriter) Flush() {
	if f, ok := w.ResponseWriter.(http.Flusher); ok {
		f.Flush()
	}
}

func chunkedMiddleware(h http.Handler) http.Handler {
	return http.HandlerFunc(func(w http.ResponseWriter, r *http.Request) {
		h.ServeHTTP(&chunkedWriter{ResponseWriter: w}, r)
	})
}

// RecvRes is one client-side RecvMsg result.
type RecvRes struct {
	Msg []byte `json:",omitempty"` // deterministic encoding of the received message (nil error)
	Err string `json:",omitempty"`
}

type StatusObs struct {
	Nil      bool
	EOF      bool
	IsStatus bool
	Code     uint32
	Msg      string
	Details  [][]byte `json:",omitempty"`
	Raw      string
}

func observeErr(err error) StatusObs {
	if err == nil {
		return StatusObs{Nil: true}
	}
	if err == io.EOF {
		return StatusObs{EOF: true, Raw: "EOF"}
	}
	so := StatusObs{Raw: fmt.Sprintf("%T: %v", err, err)}
	if st, ok := status.FromError(err); ok {
		so.IsStatus = true
		so.Code = uint32(st.Code())
		so.Msg = st.Message()
		for _, d := range st.Proto().GetDetails() {
			so.Details = append(so.Details, detBytes(d))
		}
	} else {
		st := status.Convert(err)
		so.Code, so.Msg = uint32(st.Code()), st.Message()
	}
	return so
}

type Obs struct {
	Carrier string
	// handler side
	HandlerRuns int
	InMD        metadata.MD `json:",omitempty"`
	HRecv       [][]byte    `json:",omitempty"`
	HRecvErr    string      `json:",omitempty"`
	HOpErrs     []string    `json:",omitempty"`
	// client side
	NewStreamErr string      `json:",omitempty"`
	SendErrs     []string    `json:",omitempty"`
	CloseErr     string      `json:",omitempty"`
	HeaderCalled bool        `json:",omitempty"`
	HeaderMD     metadata.MD `json:",omitempty"`
	HeaderErr    string      `json:",omitempty"`
	HeaderAfter  int         `json:",omitempty"` // number of successful RecvMsg before Header() was called
	Recvs        []RecvRes   `json:",omitempty"`
	After        []string    `json:",omitempty"` // results of two further RecvMsg calls after the final one: nil | EOF | error
	Final        StatusObs
	TrailerMD    metadata.MD   `json:",omitempty"`
	HdrOpts      []metadata.MD `json:",omitempty"`
	TlrOpts      []metadata.MD `json:",omitempty"`
	Panics       []string      `json:",omitempty"`
	Stalled      string        `json:",omitempty"`
	finalErr     error
}

func errStr(err error) string {
	if err == nil {
		return ""
	}
	return fmt.Sprintf("%T: %v", err, err)
}

func clientStreaming(kind string) bool { return kind == kClientStream || kind == kBidi }
func serverStreaming(kind string) bool { return kind == kServerStream || kind == kBidi }

const stallBound = 20 * time.Second

// scriptService builds the handler side of a script.
func scriptService(s *Script, o *Obs, mu *sync.Mutex) *Service {
	resps := make([]*pb.Message, len(s.Resps))
	for i := range s.Resps {
		resps[i] = s.Resps[i].Build()
	}
	type hdrSetter interface {
		SetHeader(metadata.MD) error
		SendHeader(metadata.MD) error
	}
	var mdCache []metadata.MD
	if s.StaticMD {
		for _, op := range s.HOps {
			mdCache = append(mdCache, op.MD.MD())
		}
	}
	runOps := func(ctx context.Context, stream grpc.ServerStream) {
		if s.Spoof > 0 {
			md := metadata.Pairs("x-grpc-status", fmt.Sprintf("%d:spoofed by handler metadata", s.Spoof-1), "x-grpc-details", "CgF4EgF5")
			// (the reference transport refuses keys that are not lower case - HTTP/2 allows no others; it gets
			// the lower-case spelling)
			if s.SpoofCase > 0 && o.Carrier != cGRPC {
				ks, kd := "X-Grpc-Status", "X-Grpc-Details"
				if s.SpoofCase == 2 {
					ks, kd = "X-GRPC-STATUS", "X-GRPC-DETAILS"
				}
				md = metadata.MD{ks: md["x-grpc-status"], kd: md["x-grpc-details"]}
			}
			if stream != nil {
				stream.SetHeader(md)
				stream.SetTrailer(md)
			} else {
				grpc.SetHeader(ctx, md)
				grpc.SetTrailer(ctx, md)
			}
		}
		for i, op := range s.HOps {
			var err error
			opMD := op.MD.MD()
			if s.StaticMD {
				opMD = mdCache[i]
			}
			switch op.Op {
			case "sethdr":
				if stream != nil && !s.CtxAPI {
					err = stream.SetHeader(opMD)
				} else {
					err = grpc.SetHeader(ctx, opMD)
				}
			case "sendhdr":
				if stream != nil && !s.CtxAPI {
					err = stream.SendHeader(opMD)
				} else {
					err = grpc.SendHeader(ctx, opMD)
				}
			case "settlr":
				if stream != nil && !s.CtxAPI {
					stream.SetTrailer(opMD)
				} else {
					err = grpc.SetTrailer(ctx, opMD)
				}
			case "send":
				err = stream.SendMsg(resps[op.Msg])
			}
			mu.Lock()
			o.HOpErrs = append(o.HOpErrs, errStr(err))
			mu.Unlock()
		}
	}
	svc := &Service{}
	svc.Unary = func(ctx context.Context, req *pb.Message) (resp *pb.Message, err error) {
		defer func() {
			if r := recover(); r != nil {
				mu.Lock()
				o.Panics = append(o.Panics, fmt.Sprintf("handler: %v\n%s", r, debug.Stack()))
				mu.Unlock()
				err = status.Error(codes.Internal, "harness: handler panicked")
			}
		}()
		md, _ := metadata.FromIncomingContext(ctx)
		if len(md.Get("zz-pre-sendhdr")) > 0 {
			// the unrelated earlier call (PreSendHdr)
			grpc.SendHeader(ctx, metadata.Pairs("zz-pre", "1"))
			return &pb.Message{}, nil
		}
		mu.Lock()
		o.HandlerRuns++
		o.InMD = md.Copy()
		o.HRecv = append(o.HRecv, detBytes(req))
		mu.Unlock()
		runOps(ctx, nil)
		if e := s.Final.Build(); e != nil {
			if s.RespWithErr {
				return resps[s.UnaryResp], e
			}
			return nil, e
		}
		return resps[s.UnaryResp], nil
	}
	svc.Stream = func(kind string, stream grpc.ServerStream) (err error) {
		defer func() {
			if r := recover(); r != nil {
				mu.Lock()
				o.Panics = append(o.Panics, fmt.Sprintf("handler: %v\n%s", r, debug.Stack()))
				mu.Unlock()
				err = status.Error(codes.Internal, "harness: handler panicked")
			}
		}()
		md, _ := metadata.FromIncomingContext(stream.Context())
		mu.Lock()
		o.HandlerRuns++
		o.InMD = md.Copy()
		mu.Unlock()
		n := s.RecvN
		if !clientStreaming(kind) {
			n = 1
		}
		for i := 0; n < 0 || i < n; i++ {
			m := new(pb.Message)
			if err := stream.RecvMsg(m); err != nil {
				mu.Lock()
				o.HRecvErr = errStr(err)
				mu.Unlock()
				break
			}
			mu.Lock()
			o.HRecv = append(o.HRecv, detBytes(m))
			mu.Unlock()
		}
		runOps(stream.Context(), stream)
		return s.Final.Build()
	}
	return svc
}

// guard runs f and reports a stall if it does not return within the bound.
func guard(what string, f func()) (stalled string) {
	done := make(chan struct{})
	go func() {
		defer close(done)
		f()
	}()
	select {
	case <-done:
		return ""
	case <-time.After(stallBound):
		return what + " did not return within " + stallBound.String() + "\n" + goroutineDump()
	}
}

// runScript executes the script on the carrier named name and returns what was observed.
func runScript(s *Script, name string, copts carrierOpts) *Obs {
	o := &Obs{Carrier: name}
	var mu sync.Mutex
	svc := scriptService(s, o, &mu)
	if s.Chunked && isHTTP(name) && copts.WrapHandler == nil {
		copts.WrapHandler = chunkedMiddleware
	}
	if s.SlowFinish && isHTTP(name) && copts.WrapHandler == nil {
		copts.WrapHandler = func(h http.Handler) http.Handler {
			return http.HandlerFunc(func(w http.ResponseWriter, r *http.Request) {
				h.ServeHTTP(w, r)
				time.Sleep(2 * time.Millisecond)
			})
		}
	}
	if s.SrvInt && name != cGRPC && copts.UnaryInt == nil && copts.StreamInt == nil {
		copts.UnaryInt = func(ctx context.Context, req interface{}, _ *grpc.UnaryServerInfo, h grpc.UnaryHandler) (interface{}, error) {
			return h(ctx, req)
		}
		copts.StreamInt = func(srv interface{}, ss grpc.ServerStream, _ *grpc.StreamServerInfo, h grpc.StreamHandler) error {
			return h(srv, ss)
		}
	}
	desc := newServiceDesc()
	if s.RegAllBidi {
		for i := range desc.Streams {
			desc.Streams[i].ClientStreams, desc.Streams[i].ServerStreams = true, true
		}
	}
	car := newCarrier(name, desc, svc, copts)
	defer car.Close()
	runScriptOn(s, car.Conn, o, &mu)
	return o
}

// runScriptRepeat executes the script n times in a row on one carrier (same server, same channel, same
// handler object) and returns what each call observed.
func runScriptRepeat(s *Script, name string, copts carrierOpts, n int) []*Obs {
	o := &Obs{Carrier: name}
	var mu sync.Mutex
	svc := scriptService(s, o, &mu)
	car := newCarrier(name, newServiceDesc(), svc, copts)
	defer car.Close()
	var out []*Obs
	for i := 0; i < n; i++ {
		runScriptOn(s, car.Conn, o, &mu)
		mu.Lock()
		snap := *o
		*o = Obs{Carrier: name}
		mu.Unlock()
		out = append(out, &snap)
		if snap.Stalled != "" || len(snap.Panics) > 0 {
			break
		}
	}
	return out
}

func runScriptOn(s *Script, conn grpc.ClientConnInterface, o *Obs, mu *sync.Mutex) {
	if s.PreSendHdr {
		for i := 0; i < 3; i++ { // (a few, so that whatever the server keeps per call has been through it)
			conn.Invoke(metadata.AppendToOutgoingContext(context.Background(), "zz-pre-sendhdr", "1"), mUnary, &pb.Message{}, new(pb.Message))
		}
	}
	// (the wrapper is part of what is being tested: the reference run goes without it)
	if s.Wrap != "" && o.Carrier != cGRPC {
		var ui grpc.UnaryClientInterceptor
		var si grpc.StreamClientInterceptor
		if strings.Contains(s.Wrap, "u") {
			ui = func(ctx context.Context, method string, req, reply interface{}, cc *grpc.ClientConn, invoker grpc.UnaryInvoker, opts ...grpc.CallOption) error {
				// (an interceptor that stamps the request, e.g. with a token or a request id)
				return invoker(metadata.AppendToOutgoingContext(ctx, "zz-wrap", "u"), method, req, reply, cc, opts...)
			}
		}
		if strings.Contains(s.Wrap, "s") {
			si = func(ctx context.Context, desc *grpc.StreamDesc, cc *grpc.ClientConn, method string, streamer grpc.Streamer, opts ...grpc.CallOption) (grpc.ClientStream, error) {
				return streamer(metadata.AppendToOutgoingContext(ctx, "zz-wrap", "s"), desc, cc, method, opts...)
			}
		}
		conn = grpchan.InterceptClientConn(conn, ui, si)
	}
	ctx, cancel := context.WithCancel(context.Background())
	defer cancel()
	if s.Deadline {
		var cancelDL context.CancelFunc
		ctx, cancelDL = context.WithTimeout(ctx, time.Hour)
		defer cancelDL()
	}
	if len(s.ReqMD) > 0 {
		ctx = metadata.NewOutgoingContext(ctx, s.ReqMD.MD())
	}
	if len(s.ReqMDMore) > 0 {
		var kv []string
		for _, p := range s.ReqMDMore {
			kv = append(kv, p.K, string(p.V))
		}
		ctx = metadata.AppendToOutgoingContext(ctx, kv...)
	}
	if o.Carrier == cGRPC {
		// the reference run has no wrapper; what the wrapper's interceptor adds is attached directly
		if s.Kind == kUnary && strings.Contains(s.Wrap, "u") {
			ctx = metadata.AppendToOutgoingContext(ctx, "zz-wrap", "u")
		}
		if s.Kind != kUnary && strings.Contains(s.Wrap, "s") {
			ctx = metadata.AppendToOutgoingContext(ctx, "zz-wrap", "s")
		}
	}
	o.HdrOpts = make([]metadata.MD, s.NHdrOpts)
	o.TlrOpts = make([]metadata.MD, s.NTlrOpts)
	var opts []grpc.CallOption
	// OptReuse: the variables already hold a value for a key this call is going to set (left there by an
	// earlier call): afterwards they hold this call's values for it, not both
	staleFor := func(ops ...string) metadata.MD {
		for _, op := range s.HOps {
			for _, want := range ops {
				if op.Op == want && len(op.MD) > 0 {
					return metadata.Pairs(op.MD[0].K, "stale-from-an-earlier-call")
				}
			}
		}
		return nil
	}
	for i := range o.HdrOpts {
		if s.OptReuse {
			o.HdrOpts[i] = staleFor("sethdr", "sendhdr")
		}
		opts = append(opts, grpc.Header(&o.HdrOpts[i]))
	}
	for i := range o.TlrOpts {
		if s.OptReuse {
			o.TlrOpts[i] = staleFor("settlr")
		}
		opts = append(opts, grpc.Trailer(&o.TlrOpts[i]))
	}
	if s.OptReuse && len(o.HdrOpts) > 0 {
		opts = append(opts, grpc.Header(&o.HdrOpts[0])) // and the same variable given twice
	}
	if s.OptReuse && len(o.TlrOpts) > 0 {
		opts = append(opts, grpc.Trailer(&o.TlrOpts[0]))
	}
	reqs := make([]*pb.Message, len(s.Reqs))
	for i := range s.Reqs {
		reqs[i] = s.Reqs[i].Build()
	}
	stalled := guard("client program", func() {
		defer func() {
			if r := recover(); r != nil {
				mu.Lock()
				o.Panics = append(o.Panics, fmt.Sprintf("client: %v\n%s", r, debug.Stack()))
				mu.Unlock()
			}
		}()
		if s.Kind == kUnary {
			resp := new(pb.Message)
			err := conn.Invoke(ctx, mUnary, reqs[0], resp, opts...)
			mu.Lock()
			defer mu.Unlock()
			o.finalErr = err
			o.Final = observeErr(err)
			if err == nil {
				o.Recvs = append(o.Recvs, RecvRes{Msg: detBytes(resp)})
			}
			return
		}
		cs, err := conn.NewStream(ctx, streamDescOf(s.Kind), methodOf(s.Kind), opts...)
		if err != nil {
			mu.Lock()
			o.NewStreamErr = errStr(err)
			o.finalErr = err
			o.Final = observeErr(err)
			mu.Unlock()
			return
		}
		for _, r := range reqs {
			err := cs.SendMsg(r)
			mu.Lock()
			o.SendErrs = append(o.SendErrs, errStr(err))
			mu.Unlock()
			if err != nil {
				break
			}
		}
		err = cs.CloseSend()
		mu.Lock()
		o.CloseErr = errStr(err)
		mu.Unlock()
		callHeader := func(after int) {
			md, err := cs.Header()
			mu.Lock()
			o.HeaderCalled, o.HeaderMD, o.HeaderErr, o.HeaderAfter = true, md.Copy(), errStr(err), after
			mu.Unlock()
		}
		var final error
		var earlyTrailer metadata.MD
		var earlyTlrOpts, finalTlrOpts []metadata.MD
		got := 0
		for i := 0; i < len(s.Resps)+len(s.HOps)+4; i++ {
			if s.HeaderAt == i {
				callHeader(got)
			}
			m := new(pb.Message)
			err := cs.RecvMsg(m)
			mu.Lock()
			if err != nil {
				o.Recvs = append(o.Recvs, RecvRes{Err: errStr(err)})
				if earlyTrailer == nil {
					// "trailers no later than the final status": what the options hold now is what counts
					for _, t := range o.TlrOpts {
						finalTlrOpts = append(finalTlrOpts, t.Copy())
					}
				}
				mu.Unlock()
				final = err
				break
			}
			got++
			o.Recvs = append(o.Recvs, RecvRes{Msg: detBytes(m)})
			mu.Unlock()
			if s.OneRecv && got == 1 && !serverStreaming(s.Kind) {
				earlyTrailer = cs.Trailer().Copy()
				if earlyTrailer == nil {
					earlyTrailer = metadata.MD{}
				}
				for _, t := range o.TlrOpts {
					earlyTlrOpts = append(earlyTlrOpts, t.Copy())
				}
			}
		}
		if s.HeaderAt >= 0 && !o.HeaderCalled {
			callHeader(got)
		}
		// a finished stream stays finished: further receives keep reporting its outcome
		var after []string
		for i := 0; i < 2 && final != nil; i++ {
			err := cs.RecvMsg(new(pb.Message))
			switch {
			case err == nil:
				after = append(after, "nil")
			case err == io.EOF:
				after = append(after, "EOF")
			default:
				after = append(after, "error")
			}
		}
		tr := cs.Trailer()
		mu.Lock()
		o.After = after
		o.TrailerMD = tr.Copy()
		if earlyTrailer != nil {
			o.TrailerMD = earlyTrailer
			copy(o.TlrOpts, earlyTlrOpts)
		} else if finalTlrOpts != nil {
			copy(o.TlrOpts, finalTlrOpts)
		}
		o.finalErr = final
		o.Final = observeErr(final)
		mu.Unlock()
	})
	mu.Lock()
	o.Stalled = stalled
	mu.Unlock()
	cancel()
}

// ---------------------------------------------------------------------------------------
// model

type Expect struct {
	Code        codes.Code
	Msg         string
	Details     [][]byte
	Msgs        [][]byte    // messages the client receives before the final status
	Headers     metadata.MD // merged response headers
	Trailers    metadata.MD // merged response trailers
	ReqMD       metadata.MD // merged request metadata
	HRecv       [][]byte    // messages the handler receives
	HOpFail     []bool      // per HOp: must it return a non-nil error?
	HOpEither   []bool      // per HOp: either result accepted (SetHeader with empty metadata after headers were sent)
	SingleResp  bool
	Cardinality bool // single-response method whose handler did not produce exactly one response with nil status
}

func modelScript(s *Script) *Expect {
	e := &Expect{SingleResp: !serverStreaming(s.Kind)}
	e.Code, e.Msg, _ = s.Final.Expected()
	_, _, det := s.Final.Expected()
	for _, d := range det {
		e.Details = append(e.Details, detBytes(d.build()))
	}
	e.ReqMD = mergeMD(mergeMD(nil, s.ReqMD.MD()), s.ReqMDMore.MD())
	if s.Kind == kUnary && strings.Contains(s.Wrap, "u") {
		e.ReqMD = mergeMD(e.ReqMD, metadata.Pairs("zz-wrap", "u"))
	}
	if s.Kind != kUnary && strings.Contains(s.Wrap, "s") {
		e.ReqMD = mergeMD(e.ReqMD, metadata.Pairs("zz-wrap", "s"))
	}
	// what the handler receives
	n := s.RecvN
	if !clientStreaming(s.Kind) {
		n = 1
	}
	for i, r := range s.Reqs {
		if n >= 0 && i >= n {
			break
		}
		e.HRecv = append(e.HRecv, detBytes(r.Build()))
	}
	sent := false
	nsent := 0
	for _, op := range s.HOps {
		fail, either := false, false
		switch op.Op {
		case "sethdr":
			if sent {
				fail = true
				// grpc-go returns nil for SetHeader with empty metadata whatever the state
				either = len(op.MD) == 0
			} else {
				e.Headers = mergeMD(e.Headers, op.MD.MD())
			}
		case "sendhdr":
			if sent {
				fail = true
			} else {
				e.Headers = mergeMD(e.Headers, op.MD.MD())
				sent = true
			}
		case "settlr":
			e.Trailers = mergeMD(e.Trailers, op.MD.MD())
		case "send":
			sent = true
			nsent++
			e.Msgs = append(e.Msgs, detBytes(s.Resps[op.Msg].Build()))
		}
		e.HOpFail = append(e.HOpFail, fail)
		e.HOpEither = append(e.HOpEither, either)
	}
	if s.Kind == kUnary {
		if e.Code == codes.OK {
			e.Msgs = [][]byte{detBytes(s.Resps[s.UnaryResp].Build())}
			nsent = 1
		} else {
			e.Msgs = nil
		}
	}
	if e.SingleResp && s.Kind != kUnary {
		if !(nsent == 1 && e.Code == codes.OK) && !(nsent <= 1 && e.Code != codes.OK) {
			e.Cardinality = true
		}
	}
	return e
}

func pbFromDet(b []byte) string {
	m := new(pb.Message)
	if err := proto.Unmarshal(b, m); err != nil {
		return fmt.Sprintf("<%d undecodable bytes>", len(b))
	}
	s := fmt.Sprintf("%v", m)
	if len(s) > 200 {
		s = s[:200] + "..."
	}
	return s
}

// sampleForReference picks (deterministically, from the script itself) about one case in
// sixteen (one in four in the thorough tier) for a run on the reference transport even though
// the SUT agreed with the model: this validates the model, not the SUT.
// referenceUsable: there are two inputs on which grpc-go itself does not do what the property
// says - status codes above MaxInt32 (written as uint32, parsed as int32: "malformed
// grpc-status") and a non-nil handler error whose status says OK (reported as success). There
// the property statement decides alone; the reference is neither sampled nor asked to arbitrate.
func referenceUsable(s *Script) bool {
	if len(s.Final.Details) > 0 && sanitizeMsg(string(s.Final.Msg)) != string(s.Final.Msg) {
		// grpc-go itself cannot encode error details next to a status message that is not valid UTF-8; the model
		// (code and details as returned, message with the replacement character) stands on the property's own words
		return false
	}
	return !(s.Final.Kind == "ok-status-error" || (s.Final.Kind == "status" && s.Final.Code > 1<<31-1))
}

func sampleForReference(s *Script) bool {
	if !referenceUsable(s) {
		return false
	}
	b, _ := json.Marshal(s)
	h := hashBytes(b)
	if thorough() {
		return h%4 == 0
	}
	return h%16 == 0
}
