package harness

// Shared generators: messages, metadata, handler outcomes. All randomness comes from rapid.

import (
	"context"
	"errors"
	"fmt"
	"io"
	"sort"
	"strings"

	spb "google.golang.org/genproto/googleapis/rpc/status"
	"google.golang.org/grpc/codes"
	"google.golang.org/grpc/metadata"
	"google.golang.org/grpc/status"
	"google.golang.org/protobuf/proto"
	"google.golang.org/protobuf/types/known/anypb"
	"pgregory.net/rapid"

	pb "github.com/fullstorydev/grpchan/grpchantesting"
)

// ---------------------------------------------------------------------------------------
// messages

type AnySpec struct {
	URL string
	Val []byte
}

func (a AnySpec) build() *anypb.Any { return &anypb.Any{TypeUrl: a.URL, Value: a.Val} }

// MsgSpec is the serialisable description of a grpchantesting.Message.
type MsgSpec struct {
	Empty   bool              `json:",omitempty"` // the message with no field set (zero-length encoding)
	Raw     []byte            `json:",omitempty"` // payload bytes (small payloads)
	Size    int               `json:",omitempty"` // payload size when Raw is nil (filled from Fill)
	Fill    uint32            `json:",omitempty"`
	Count   int32             `json:",omitempty"`
	Code    int32             `json:",omitempty"`
	Delay   int32             `json:",omitempty"`
	Hdr     map[string][]byte `json:",omitempty"`
	Tlr     map[string][]byte `json:",omitempty"`
	Anys    []AnySpec         `json:",omitempty"`
	Unknown []byte            `json:",omitempty"` // extra valid wire data for unknown field numbers
}

func fillBytes(n int, seed uint32) []byte {
	b := make([]byte, n)
	x := uint64(seed)*2654435761 + 0x9E3779B97F4A7C15
	for i := 0; i < n; i += 8 {
		x ^= x << 13
		x ^= x >> 7
		x ^= x << 17
		for j := 0; j < 8 && i+j < n; j++ {
			b[i+j] = byte(x >> (8 * j))
		}
	}
	return b
}

func (s MsgSpec) Build() *pb.Message {
	m := &pb.Message{}
	if s.Empty {
		return m
	}
	if s.Raw != nil {
		m.Payload = append([]byte{}, s.Raw...)
	} else if s.Size > 0 {
		m.Payload = fillBytes(s.Size, s.Fill)
	}
	m.Count, m.Code, m.DelayMillis = s.Count, s.Code, s.Delay
	if s.Hdr != nil {
		m.Headers = map[string][]byte{}
		for k, v := range s.Hdr {
			m.Headers[k] = append([]byte{}, v...)
		}
	}
	if s.Tlr != nil {
		m.Trailers = map[string][]byte{}
		for k, v := range s.Tlr {
			m.Trailers[k] = append([]byte{}, v...)
		}
	}
	for _, a := range s.Anys {
		m.ErrorDetails = append(m.ErrorDetails, a.build())
	}
	if len(s.Unknown) > 0 {
		m.ProtoReflect().SetUnknown(append([]byte{}, s.Unknown...))
	}
	return m
}

func (s MsgSpec) payloadLen() int {
	if s.Empty {
		return 0
	}
	if s.Raw != nil {
		return len(s.Raw)
	}
	return s.Size
}

// detBytes is the deterministic encoding used for byte-level equality.
func detBytes(m proto.Message) []byte {
	b, err := proto.MarshalOptions{Deterministic: true}.Marshal(m)
	if err != nil {
		panic(err)
	}
	return b
}

func sameMsg(a, b proto.Message) bool {
	return proto.Equal(a, b) && string(detBytes(a)) == string(detBytes(b))
}

var genSmallBytes = rapid.SliceOfN(rapid.Byte(), 0, 24)

var genMapKey = rapid.OneOf(rapid.Just(""), rapid.StringMatching(`[a-z]{1,6}`), rapid.Just("é∑"), rapid.Just("k\x00k"))

func genByteMap(t *rapid.T, label string) map[string][]byte {
	n := rapid.IntRange(0, 4).Draw(t, label+"-n")
	if n == 0 {
		if rapid.Bool().Draw(t, label+"-nil") {
			return nil
		}
	}
	m := map[string][]byte{}
	for i := 0; i < n; i++ {
		k := genMapKey.Draw(t, label+"-k")
		m[k] = rapid.OneOf(rapid.Just([]byte{}), rapid.Just([]byte{0x00, 0xff, 0x0a}), genSmallBytes).Draw(t, label+"-v")
	}
	if len(m) == 0 {
		return nil
	}
	return m
}

var anyURLs = []string{"type.googleapis.com/google.protobuf.Empty", "type.googleapis.com/grpchantesting.Message", "type.googleapis.com/unknown.Type", "x/y", ""}

func genAny(t *rapid.T, label string) AnySpec {
	a := AnySpec{URL: rapid.SampledFrom(anyURLs).Draw(t, label+"-url"), Val: genSmallBytes.Draw(t, label+"-val")}
	if len(a.Val) == 0 {
		a.Val = nil
	}
	return a
}

// unknown fields: valid wire data using field numbers >= 100.
func genUnknown(t *rapid.T, label string) []byte {
	var b []byte
	n := rapid.IntRange(1, 3).Draw(t, label+"-n")
	for i := 0; i < n; i++ {
		fn := rapid.IntRange(100, 120).Draw(t, label+"-fn")
		if rapid.Bool().Draw(t, label+"-varint") {
			b = appendVarint(b, uint64(fn<<3|0))
			b = appendVarint(b, rapid.Uint64().Draw(t, label+"-v"))
		} else {
			v := genSmallBytes.Draw(t, label+"-bytes")
			b = appendVarint(b, uint64(fn<<3|2))
			b = appendVarint(b, uint64(len(v)))
			b = append(b, v...)
		}
	}
	return b
}

func appendVarint(b []byte, v uint64) []byte {
	for v >= 0x80 {
		b = append(b, byte(v)|0x80)
		v >>= 7
	}
	return append(b, byte(v))
}

// genMsg draws a message. maxSize caps the payload; big says whether size classes above
// 4 KiB may be drawn at all.
func genMsg(t *rapid.T, label string, maxSize int) MsgSpec {
	cls := rapid.IntRange(0, 19).Draw(t, label+"-class")
	var s MsgSpec
	switch {
	case cls < 2:
		return MsgSpec{Empty: true}
	case cls < 10:
		s.Raw = genSmallBytes.Draw(t, label+"-raw")
	case cls < 13:
		s.Size = rapid.IntRange(25, 4096).Draw(t, label+"-size")
	case cls < 14:
		// encoded sizes in the neighbourhood of a power of two (buffer and frame-size boundaries)
		s.Size = 1<<uint(rapid.IntRange(6, 17).Draw(t, label+"-pow")) + rapid.IntRange(-12, 12).Draw(t, label+"-delta")
	case cls < 17:
		s.Size = rapid.IntRange(4097, 70000).Draw(t, label+"-size")
	default:
		s.Size = rapid.IntRange(65536, 1<<20).Draw(t, label+"-size")
	}
	if s.Size > maxSize {
		s.Size = maxSize
	}
	if s.Size > 0 {
		s.Fill = rapid.Uint32().Draw(t, label+"-fill")
	}
	ints := rapid.OneOf(rapid.Just(int32(0)), rapid.Int32Range(-3, 3), rapid.Int32(), rapid.SampledFrom([]int32{-1 << 31, 1<<31 - 1}))
	s.Count = ints.Draw(t, label+"-count")
	s.Code = ints.Draw(t, label+"-code")
	if rapid.IntRange(0, 3).Draw(t, label+"-hasmaps") == 0 {
		s.Hdr = genByteMap(t, label+"-hdr")
		s.Tlr = genByteMap(t, label+"-tlr")
	}
	if rapid.IntRange(0, 3).Draw(t, label+"-hasany") == 0 {
		n := rapid.IntRange(1, 3).Draw(t, label+"-nany")
		for i := 0; i < n; i++ {
			a := genAny(t, label+"-any")
			if rapid.IntRange(0, 4).Draw(t, label+"-nest") == 0 {
				// nested Any
				inner := genAny(t, label+"-inner").build()
				a = AnySpec{URL: "type.googleapis.com/google.protobuf.Any", Val: mustMarshal(inner)}
			}
			s.Anys = append(s.Anys, a)
		}
	}
	if rapid.IntRange(0, 7).Draw(t, label+"-hasunk") == 0 {
		s.Unknown = genUnknown(t, label+"-unk")
	}
	return s
}

// ---------------------------------------------------------------------------------------
// metadata

// MDPair keeps order (metadata.MD is a map; value order per key is significant).
type MDPair struct {
	K string
	V []byte // []byte so that JSON keeps arbitrary bytes
}

type MDSpec []MDPair

func (s MDSpec) MD() metadata.MD {
	if len(s) == 0 {
		return nil
	}
	md := metadata.MD{}
	for _, p := range s {
		md[p.K] = append(md[p.K], string(p.V))
	}
	return md
}

var mdPrefixes = []string{"q", "zz", "app-", "v9."}

func genMDKey(t *rapid.T, label string) string {
	k := rapid.SampledFrom(mdPrefixes).Draw(t, label+"-pfx") + rapid.StringMatching(`[a-z0-9_.-]{0,6}`).Draw(t, label+"-rest")
	// keep keys inside the grammar HTTP and gRPC both accept: no trailing '-' oddities needed
	if rapid.IntRange(0, 2).Draw(t, label+"-bin") == 0 {
		k = strings.TrimSuffix(k, "-") + "-bin"
	} else if strings.HasSuffix(k, "-bin") {
		k += "x"
	}
	return k
}

func genMDValue(t *rapid.T, label string, bin bool) []byte {
	if bin {
		return rapid.OneOf(rapid.Just([]byte{}), rapid.Just([]byte{0x00, 0x0a, 0xff}), rapid.SliceOfN(rapid.Byte(), 1, 20)).Draw(t, label)
	}
	// printable ASCII, no leading/trailing space (see DESIGN ledger of narrowing)
	s := rapid.OneOf(rapid.Just(""), rapid.StringMatching(`[!-~]([ -~]{0,14}[!-~])?`), rapid.SampledFrom([]string{"a,b", "x: y", "100%", `"q"`, "a  b"})).Draw(t, label)
	return []byte(s)
}

func genMD(t *rapid.T, label string, maxKeys int) MDSpec {
	nk := rapid.IntRange(0, maxKeys).Draw(t, label+"-nkeys")
	var s MDSpec
	for i := 0; i < nk; i++ {
		k := genMDKey(t, label+"-key")
		nv := rapid.IntRange(1, 3).Draw(t, label+"-nvals")
		for j := 0; j < nv; j++ {
			s = append(s, MDPair{K: k, V: genMDValue(t, label+"-val", strings.HasSuffix(k, "-bin"))})
		}
	}
	return s
}

// mdNonTrivial: a -bin value with a byte outside printable ASCII, or a key with >=2 values.
func mdNonTrivial(specs ...MDSpec) bool {
	cnt := map[string]int{}
	for _, s := range specs {
		for _, p := range s {
			cnt[p.K]++
			if strings.HasSuffix(p.K, "-bin") {
				for _, b := range p.V {
					if b < 0x20 || b > 0x7e {
						return true
					}
				}
			}
		}
	}
	for _, n := range cnt {
		if n >= 2 {
			return true
		}
	}
	return false
}

// mergeMD appends b's values to a's, per key, preserving order (the documented semantics of
// SetHeader/SetTrailer: "all the metadata will be merged").
func mergeMD(a metadata.MD, b metadata.MD) metadata.MD {
	if a == nil {
		a = metadata.MD{}
	}
	for k, v := range b {
		a[k] = append(a[k], v...)
	}
	return a
}

// mdContains reports whether got has, for every key of want, exactly want's values in order.
func mdContains(got, want metadata.MD) (bool, string) {
	keys := make([]string, 0, len(want))
	for k := range want {
		keys = append(keys, k)
	}
	sort.Strings(keys)
	for _, k := range keys {
		g, w := got[k], want[k]
		if len(g) != len(w) {
			return false, fmt.Sprintf("key %q: got %d values %q, want %d values %q", k, len(g), g, len(w), w)
		}
		for i := range w {
			if g[i] != w[i] {
				return false, fmt.Sprintf("key %q value %d: got %q want %q", k, i, g[i], w[i])
			}
		}
	}
	return true, ""
}

// ---------------------------------------------------------------------------------------
// handler outcomes

type ErrSpec struct {
	Kind    string    // nil | status | plain | ctx-canceled | ctx-deadline | eof | unexpected-eof
	Code    uint32    `json:",omitempty"`
	Msg     []byte    `json:",omitempty"` // bytes so invalid UTF-8 survives JSON
	Details []AnySpec `json:",omitempty"`
}

func (e ErrSpec) Build() error {
	switch e.Kind {
	case "nil", "":
		return nil
	case "status":
		sp := &spb.Status{Code: int32(e.Code), Message: string(e.Msg)}
		for _, d := range e.Details {
			sp.Details = append(sp.Details, d.build())
		}
		return status.ErrorProto(sp)
	case "plain":
		return errors.New(string(e.Msg))
	case "ctx-canceled":
		return context.Canceled
	case "ctx-deadline":
		return context.DeadlineExceeded
	case "eof":
		return io.EOF
	case "unexpected-eof":
		return io.ErrUnexpectedEOF
	case "wrapped-ctx-canceled":
		return fmt.Errorf("backend query: %w", context.Canceled)
	case "wrapped-ctx-deadline":
		return fmt.Errorf("backend query: %w", context.DeadlineExceeded)
	case "ok-status-error":
		return okStatusErr{}
	case "status-caused-by-ctx-canceled", "status-caused-by-ctx-deadline":
		// an error type of the application's own that carries a gRPC status and names, as its cause, the context
		// error of an upstream call it gave up on; the status is the handler's verdict. Code is never 0 here
		sp := &spb.Status{Code: int32(e.Code), Message: string(e.Msg)}
		for _, d := range e.Details {
			sp.Details = append(sp.Details, d.build())
		}
		cause := context.Canceled
		if e.Kind == "status-caused-by-ctx-deadline" {
			cause = context.DeadlineExceeded
		}
		return &causedStatusErr{st: status.FromProto(sp), cause: cause}
	case "wrapped-status":
		// a status error with context added the idiomatic way; Code is never 0 here
		sp := &spb.Status{Code: int32(e.Code), Message: string(e.Msg)}
		for _, d := range e.Details {
			sp.Details = append(sp.Details, d.build())
		}
		return fmt.Errorf("lookup failed: %w", status.ErrorProto(sp))
	}
	panic("bad ErrSpec kind " + e.Kind)
}

type causedStatusErr struct {
	st    *status.Status
	cause error
}

func (e *causedStatusErr) Error() string              { return e.st.Message() + ": " + e.cause.Error() }
func (e *causedStatusErr) GRPCStatus() *status.Status { return e.st }
func (e *causedStatusErr) Unwrap() error              { return e.cause }

// okStatusErr is a non-nil error whose gRPC status says OK (e.g. a careless wrapper around an
// upstream status): the handler failed, so the client must not see success.
type okStatusErr struct{}

func (okStatusErr) Error() string { return "wrapped upstream status" }
func (okStatusErr) GRPCStatus() *status.Status {
	return status.New(codes.OK, "wrapped upstream status")
}

// okEmptyStatusErr: the same with an empty status message (an HttpTrailer built from it alone has no
// bytes at all).
type okEmptyStatusErr struct{}

func (okEmptyStatusErr) Error() string              { return "wrapped nil upstream status" }
func (okEmptyStatusErr) GRPCStatus() *status.Status { return status.New(codes.OK, "") }

// expected status as the standard transport reports it (validated against grpc-go).
func (e ErrSpec) Expected() (code codes.Code, msg string, details []AnySpec) {
	switch e.Kind {
	case "nil", "":
		return codes.OK, "", nil
	case "status":
		if e.Code == 0 {
			// status.ErrorProto with code OK yields a nil error: handler succeeded
			return codes.OK, "", nil
		}
		return codes.Code(e.Code), string(e.Msg), e.Details
	case "plain":
		return codes.Unknown, string(e.Msg), nil
	case "ctx-canceled":
		return codes.Canceled, context.Canceled.Error(), nil
	case "ctx-deadline":
		return codes.DeadlineExceeded, context.DeadlineExceeded.Error(), nil
	case "eof":
		return codes.Unknown, "EOF", nil
	case "unexpected-eof":
		return codes.Unknown, io.ErrUnexpectedEOF.Error(), nil
	case "wrapped-ctx-canceled":
		return codes.Canceled, "backend query: " + context.Canceled.Error(), nil
	case "wrapped-ctx-deadline":
		return codes.DeadlineExceeded, "backend query: " + context.DeadlineExceeded.Error(), nil
	case "ok-status-error":
		// any failure will do (see anyFailure); Internal is what httpgrpc documents
		return codes.Internal, "wrapped upstream status", nil
	case "status-caused-by-ctx-canceled", "status-caused-by-ctx-deadline":
		// the error says itself what its status is (status.FromError is the specification, as below)
		st, _ := status.FromError(e.Build())
		return st.Code(), st.Message(), e.Details
	case "wrapped-status":
		// grpc's status package looks through %w wrapping: the code and details of the wrapped status,
		// the text of the whole chain (status.FromError is the specification here; the reference
		// transport reports exactly this)
		st, _ := status.FromError(e.Build())
		return st.Code(), st.Message(), e.Details
	}
	panic("bad ErrSpec kind")
}

// anyFailure: the handler failed but no particular code can be demanded of the transport.
func (e ErrSpec) anyFailure() bool { return e.Kind == "ok-status-error" }

func (e ErrSpec) isNil() bool {
	c, _, _ := e.Expected()
	return c == codes.OK
}

var statusMsgs = []string{"", "plain words", "upstream said: \xff\xfe\xfd", "a:b:c", "100% sure", "%41%zz", "naïve café ☃", "line1\nline2", "cr\rlf\r\n", " padded ", "\tTab", "bad\xffutf8\xc0", "trail:"}

func genStatusMsg(t *rapid.T, label string) []byte {
	return []byte(rapid.OneOf(rapid.SampledFrom(statusMsgs), rapid.StringMatching(`[ -~]{0,30}`), rapid.Just(strings.Repeat("long ", 800))).Draw(t, label))
}

var oddCodes = []uint32{17, 18, 99, 255, 1000, 1<<31 - 1, 1<<32 - 1}

func genErr(t *rapid.T, label string) ErrSpec {
	switch k := rapid.IntRange(0, 11).Draw(t, label+"-kind"); {
	case k < 3:
		return ErrSpec{Kind: "nil"}
	case k < 8:
		e := ErrSpec{Kind: "status", Msg: genStatusMsg(t, label+"-msg")}
		e.Code = rapid.OneOf(rapid.Uint32Range(1, 16), rapid.SampledFrom(oddCodes)).Draw(t, label+"-code")
		hasDet := rapid.IntRange(0, 2).Draw(t, label+"-hasdet") == 0
		if sanitizeMsg(string(e.Msg)) != string(e.Msg) && rapid.Bool().Draw(t, label+"-detbadmsg") {
			hasDet = true // details next to a message that is not valid UTF-8: drawn more often than chance would
		}
		if hasDet {
			n := rapid.IntRange(1, 3).Draw(t, label+"-ndet")
			for i := 0; i < n; i++ {
				e.Details = append(e.Details, genAny(t, label+"-det"))
			}
		}
		return e
	case k < 9:
		return ErrSpec{Kind: "plain", Msg: genStatusMsg(t, label+"-msg")}
	case k < 10:
		kind := rapid.SampledFrom([]string{"ctx-canceled", "ctx-deadline", "wrapped-ctx-canceled", "wrapped-ctx-deadline", "ok-status-error", "wrapped-status", "wrapped-status", "status-caused-by-ctx-canceled", "status-caused-by-ctx-deadline"}).Draw(t, label+"-ctx")
		if kind == "wrapped-status" || strings.HasPrefix(kind, "status-caused-by") {
			e := ErrSpec{Kind: kind, Code: rapid.Uint32Range(1, 16).Draw(t, label+"-wcode"), Msg: []byte(rapid.StringMatching(`[a-z0-9:+%/ ]{0,12}[a-z]`).Draw(t, label+"-wmsg"))}
			if rapid.IntRange(0, 2).Draw(t, label+"-whasdet") == 0 {
				e.Details = append(e.Details, genAny(t, label+"-wdet"))
			}
			return e
		}
		return ErrSpec{Kind: kind}
	default:
		return ErrSpec{Kind: rapid.SampledFrom([]string{"eof", "unexpected-eof"}).Draw(t, label+"-eof")}
	}
}
