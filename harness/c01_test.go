package harness

// C01 — every message is delivered exactly once, in order and intact; concurrent RPCs on one
// channel never observe each other's messages.

import (
	"bufio"
	"context"
	"fmt"
	"io"
	"net"
	"net/http"
	"net/http/httptest"
	"runtime"
	"strconv"
	"sync"
	"sync/atomic"
	"testing"
	"time"

	"google.golang.org/grpc"
	"google.golang.org/grpc/codes"
	"google.golang.org/grpc/metadata"
	"google.golang.org/grpc/status"
	"google.golang.org/protobuf/encoding/protowire"
	"pgregory.net/rapid"

	"github.com/fullstorydev/grpchan/httpgrpc"
	"google.golang.org/protobuf/proto"

	pb "github.com/fullstorydev/grpchan/grpchantesting"
)

type c01RPC struct {
	Kind        string
	Reqs        []MsgSpec
	Resps       []MsgSpec
	Duplex      bool `json:",omitempty"` // bidi on inproc: both directions flow concurrently
	Scribble    bool `json:",omitempty"` // senders overwrite each message right after the send has returned (it is theirs again)
	HeaderFirst bool `json:",omitempty"` // the client calls Header() before its first receive
	HeaderConc  bool `json:",omitempty"` // another goroutine of the client calls Header() while the receive loop runs
	ReuseDst    bool `json:",omitempty"` // receivers receive into one and the same message object every time
	EarlyHeader bool `json:",omitempty"` // streaming handlers call SendHeader before their first receive
	// RecvLimit > 0 (streams): the caller passes grpc.MaxCallRecvMsgSize(RecvLimit). A transport that enforces it
	// ends the call with ResourceExhausted at the first response above the limit (the standard transport does); one
	// that does not delivers everything. Either way what was obtained is a prefix of what was sent.
	RecvLimit int   `json:",omitempty"`
	CPace     []int `json:",omitempty"` // Gosched counts before client sends
	HPace     []int `json:",omitempty"` // Gosched counts before handler sends
	RPace     []int `json:",omitempty"` // Gosched counts before client receives
}

type c01Case struct {
	Carrier string
	RPCs    []c01RPC
	// Chunked (HTTP carriers): a middleware removes the Content-Length of replies (as compression or a
	// re-chunking proxy does), so unary replies arrive with unknown length
	Chunked bool `json:",omitempty"`
	// Fault != "": separate mode (HTTP carriers), one call whose connection fails at a chosen point. Whatever the
	// outcome of the call, what each side has obtained stays a prefix of what its peer sent, message by message.
	//   lost-reply:    the reply is cut after FaultAt bytes (clean end or reset), after the handler has run
	//   short-request: over real TCP the request is announced in full, sent up to FaultAt (or up to the
	//                  FaultAt-th field/frame boundary) and the sending side is then closed in an orderly way
	Fault      string  `json:",omitempty"`
	FaultAt    int     `json:",omitempty"`
	FaultOnBnd bool    `json:",omitempty"`
	FaultReset bool    `json:",omitempty"`
	FS         *Script `json:",omitempty"`
}

// c01PrefixOf: got[i] == want[i] for all i, len(got) <= len(want).
func c01PrefixOf(got, want [][]byte) string {
	if len(got) > len(want) {
		return fmt.Sprintf("%d messages obtained, only %d were sent", len(got), len(want))
	}
	for i := range got {
		if string(got[i]) != string(want[i]) {
			return fmt.Sprintf("message %d obtained (%d bytes) is not message %d as sent (%d bytes)", i, len(got[i]), i, len(want[i]))
		}
	}
	return ""
}

func c01Fault(c c01Case) *Outcome {
	o := &Outcome{NonTrivial: true}
	s := c.FS
	o.class("carrier=%s", c.Carrier)
	o.class("fault=%s/kind=%s", c.Fault, s.Kind)
	var sent [][]byte
	for _, r := range s.Reqs {
		sent = append(sent, detBytes(r.Build()))
	}
	e := modelScript(s)
	if c.Fault == "lost-reply" {
		cutAt := c.FaultAt
		if c.FaultOnBnd && s.Kind == kUnary && e.Code == codes.OK && len(e.Msgs) == 1 {
			// inside the reply body, on a field boundary of the response: what has arrived decodes on its own
			total := 0
			runScript(s, c.Carrier, carrierOpts{WrapConn: func(nc net.Conn) net.Conn { return &countConn{Conn: nc, n: &total} }})
			body := mustMarshal(s.Resps[s.UnaryResp].Build())
			var bounds []int
			for off := 0; off < len(body); {
				_, _, n := protowire.ConsumeField(body[off:])
				if n <= 0 {
					break
				}
				bounds = append(bounds, off)
				off += n
			}
			if len(bounds) > 0 && total > len(body) {
				cutAt = total - len(body) + bounds[c.FaultAt%len(bounds)]
				o.class("lost-reply/cut-on-a-field-boundary-of-the-response")
			}
		}
		obs := runScript(s, c.Carrier, carrierOpts{WrapConn: func(nc net.Conn) net.Conn {
			return &cutConn{Conn: nc, remaining: cutAt, abrupt: c.FaultReset, afterReply: true}
		}})
		if len(obs.Recvs) > 0 && obs.Recvs[0].Err == "" && s.Kind == kUnary && cutAt > 400 {
			// (reported below through the prefix rule as well; said here in the case's own terms)
			if string(obs.Recvs[0].Msg) != string(e.Msgs[0]) {
				o.Observed = obs
				return o.failf("%s/unary: reply cut after %d bytes, inside the response message: the caller was handed a response (%d bytes) that is not the one the handler returned (%d bytes)", c.Carrier, cutAt, len(obs.Recvs[0].Msg), len(e.Msgs[0]))
			}
		}
		o.Observed = obs
		if len(obs.Panics) > 0 {
			return o.failf("%s/%s: reply cut after %d bytes: panic %s", c.Carrier, s.Kind, c.FaultAt, obs.Panics[0])
		}
		if obs.Stalled != "" {
			return o.failf("%s/%s: reply cut after %d bytes: %s", c.Carrier, s.Kind, c.FaultAt, obs.Stalled)
		}
		if why := c01PrefixOf(obs.HRecv, sent); why != "" {
			return o.failf("%s/%s: reply cut after %d bytes (reset=%v): handler side: %s (handler ran %d times)", c.Carrier, s.Kind, c.FaultAt, c.FaultReset, why, obs.HandlerRuns)
		}
		var got [][]byte
		for _, r := range obs.Recvs {
			if r.Err == "" {
				got = append(got, r.Msg)
			}
		}
		if why := c01PrefixOf(got, e.Msgs); why != "" {
			return o.failf("%s/%s: reply cut after %d bytes (reset=%v): client side: %s", c.Carrier, s.Kind, c.FaultAt, c.FaultReset, why)
		}
		return o
	}
	// short-request
	var mu sync.Mutex
	var hrecv [][]byte
	var hfinal error
	svc := &Service{
		Unary: func(ctx context.Context, req *pb.Message) (*pb.Message, error) {
			mu.Lock()
			hrecv = append(hrecv, detBytes(req))
			mu.Unlock()
			return &pb.Message{}, nil
		},
		Stream: func(kind string, stream grpc.ServerStream) error {
			for {
				m := new(pb.Message)
				if err := stream.RecvMsg(m); err != nil {
					mu.Lock()
					hfinal = err
					mu.Unlock()
					return nil
				}
				mu.Lock()
				hrecv = append(hrecv, detBytes(m))
				mu.Unlock()
			}
		},
	}
	var body []byte
	var bounds []int
	ctype := httpgrpc.UnaryRpcContentType_V1
	if s.Kind == kUnary {
		body = mustMarshal(s.Reqs[0].Build())
		for off := 0; off < len(body); {
			_, _, n := protowire.ConsumeField(body[off:])
			if n <= 0 {
				break
			}
			bounds = append(bounds, off)
			off += n
		}
	} else {
		ctype = httpgrpc.StreamRpcContentType_V1
		for _, r := range s.Reqs {
			bounds = append(bounds, len(body))
			b := mustMarshal(r.Build())
			// inside the frame too: after the size preface, and at a field boundary of its message
			bounds = append(bounds, len(body)+4)
			if _, _, n := protowire.ConsumeField(b); n > 0 && n < len(b) {
				bounds = append(bounds, len(body)+4+n)
			}
			body = append(body, encodeStream([]proto.Message{r.Build()}, nil)...)
		}
	}
	k := c.FaultAt
	if c.FaultOnBnd && len(bounds) > 0 {
		k = bounds[c.FaultAt%len(bounds)]
	}
	if len(body) == 0 || k >= len(body) {
		o.NonTrivial = false
		return o
	}
	srv := httptest.NewServer(newHTTPHandlerBase(c.Carrier, "", newServiceDesc(), svc))
	defer srv.Close()
	conn, err := net.Dial("tcp", srv.Listener.Addr().String())
	if err != nil {
		o.Inconclusive = "harness: dial: " + err.Error()
		return o
	}
	defer conn.Close()
	conn.SetDeadline(time.Now().Add(stallBound))
	fmt.Fprintf(conn, "POST %s HTTP/1.1\r\nHost: verif.test\r\nContent-Type: %s\r\nContent-Length: %d\r\nConnection: close\r\n\r\n", methodOf(s.Kind), ctype, len(body))
	conn.Write(body[:k])
	conn.(*net.TCPConn).CloseWrite()
	resp, rerr := http.ReadResponse(bufio.NewReader(conn), nil)
	if rerr == nil {
		io.Copy(io.Discard, resp.Body)
		resp.Body.Close()
	}
	srv.Close() // waits for the handler
	mu.Lock()
	defer mu.Unlock()
	o.Observed = map[string]interface{}{"announced": len(body), "sent": k, "handler_obtained": len(hrecv), "read_err": errStr(rerr)}
	if why := c01PrefixOf(hrecv, sent); why != "" {
		return o.failf("%s/%s: request of %d bytes announced, %d sent, then the sending side closed: handler side: %s", c.Carrier, s.Kind, len(body), k, why)
	}
	if s.Kind != kUnary && hfinal == io.EOF && len(hrecv) < len(sent) {
		// "when the call ends successfully the two sequences are equal": a clean end of the request stream is the
		// handler's signal that it has everything
		return o.failf("%s/%s: request of %d bytes announced, %d sent (a cut between two messages), then the sending side closed: the handler was told the request stream had ended cleanly (io.EOF) after %d of %d messages", c.Carrier, s.Kind, len(body), k, len(hrecv), len(sent))
	}
	return o
}

type c01run struct {
	mu      sync.Mutex
	faults  []string
	rpcs    []*c01rpcState
	carrier string
}

type c01rpcState struct {
	spec         *c01RPC
	reqs, resps  []*pb.Message
	reqB, respB  [][]byte
	cSendStarted atomic.Int32
	hSendStarted atomic.Int32
	hRecv, cRecv atomic.Int32
	handlerRuns  atomic.Int32
	limited      atomic.Bool // the call was ended by the receive limit the caller asked for
}

func (r *c01run) fault(format string, a ...interface{}) {
	r.mu.Lock()
	if len(r.faults) < 10 {
		r.faults = append(r.faults, fmt.Sprintf(format, a...))
	}
	r.mu.Unlock()
}

func pace(p []int, i int) {
	if i < len(p) {
		for k := 0; k < p[i]; k++ {
			runtime.Gosched()
		}
	}
}

// tag makes every non-empty message unique to (rpc, direction, index).
func c01Tag(m *pb.Message, s MsgSpec, rpc, dir, idx int) {
	if s.Empty {
		return
	}
	m.Count = int32(rpc*1000 + idx + 1)
	m.DelayMillis = int32(dir + 1)
}

func newC01Run(c *c01Case) *c01run {
	r := &c01run{carrier: c.Carrier}
	for i := range c.RPCs {
		st := &c01rpcState{spec: &c.RPCs[i]}
		for j, s := range c.RPCs[i].Reqs {
			m := s.Build()
			c01Tag(m, s, i, 0, j)
			st.reqs = append(st.reqs, m)
			st.reqB = append(st.reqB, detBytes(m))
		}
		for j, s := range c.RPCs[i].Resps {
			m := s.Build()
			c01Tag(m, s, i, 1, j)
			st.resps = append(st.resps, m)
			st.respB = append(st.respB, detBytes(m))
		}
		r.rpcs = append(r.rpcs, st)
	}
	return r
}

func (r *c01run) rpcOf(ctx context.Context) (int, *c01rpcState) {
	md, _ := metadata.FromIncomingContext(ctx)
	v := md.Get("verif-rpc")
	if len(v) != 1 {
		r.fault("handler: verif-rpc metadata = %q", v)
		return -1, nil
	}
	i, err := strconv.Atoi(v[0])
	if err != nil || i < 0 || i >= len(r.rpcs) {
		r.fault("handler: bad verif-rpc %q", v[0])
		return -1, nil
	}
	return i, r.rpcs[i]
}

func (r *c01run) service() *Service {
	svc := &Service{}
	svc.Unary = func(ctx context.Context, req *pb.Message) (*pb.Message, error) {
		i, st := r.rpcOf(ctx)
		if st == nil {
			return nil, io.ErrUnexpectedEOF
		}
		st.handlerRuns.Add(1)
		if string(detBytes(req)) != string(st.reqB[0]) {
			r.fault("rpc %d (unary): handler received %s, client sent %s", i, pbFromDet(detBytes(req)), pbFromDet(st.reqB[0]))
		}
		st.hRecv.Add(1)
		st.hSendStarted.Store(1)
		return st.resps[0], nil
	}
	svc.Stream = func(kind string, stream grpc.ServerStream) error {
		i, st := r.rpcOf(stream.Context())
		if st == nil {
			return io.ErrUnexpectedEOF
		}
		st.handlerRuns.Add(1)
		sp := st.spec
		sendAll := func() error {
			for j, m := range st.resps {
				pace(sp.HPace, j)
				st.hSendStarted.Store(int32(j + 1))
				if err := stream.SendMsg(m); err != nil {
					if !st.limited.Load() {
						r.fault("rpc %d (%s): handler SendMsg #%d: %v", i, kind, j, err)
					}
					return err
				}
				if sp.Scribble {
					flipBytes(m)
					m.Count, m.Code = -m.Count-1, 424242
				}
			}
			return nil
		}
		if sp.EarlyHeader {
			if err := stream.SendHeader(metadata.Pairs("zz-early", "1")); err != nil {
				r.fault("rpc %d (%s): handler SendHeader before its first receive: %v", i, kind, err)
			}
		}
		var wg sync.WaitGroup
		if sp.Duplex {
			wg.Add(1)
			go func() { defer wg.Done(); sendAll() }()
		}
		n := -1
		if !clientStreaming(kind) {
			n = 1
		}
		hdst := new(pb.Message)
		for j := 0; n < 0 || j < n; j++ {
			m := new(pb.Message)
			if sp.ReuseDst {
				m = hdst
			}
			err := stream.RecvMsg(m)
			if err == io.EOF && n < 0 {
				break
			}
			if err != nil {
				r.fault("rpc %d (%s): handler RecvMsg #%d: %v", i, kind, j, err)
				wg.Wait()
				return err
			}
			started := int(st.cSendStarted.Load())
			switch {
			case j >= len(st.reqB):
				r.fault("rpc %d (%s): handler received a message #%d but the client sends only %d: %s", i, kind, j, len(st.reqB), pbFromDet(detBytes(m)))
			case string(detBytes(m)) != string(st.reqB[j]):
				r.fault("rpc %d (%s): handler message #%d is %s, client's #%d is %s", i, kind, j, pbFromDet(detBytes(m)), j, pbFromDet(st.reqB[j]))
			case started <= j:
				r.fault("rpc %d (%s): handler received message #%d before the client started sending it (started %d)", i, kind, j, started)
			}
			st.hRecv.Add(1)
		}
		if int(st.hRecv.Load()) != len(st.reqB) && n < 0 {
			r.fault("rpc %d (%s): request stream ended after %d of %d messages", i, kind, st.hRecv.Load(), len(st.reqB))
		}
		if sp.Duplex {
			wg.Wait()
			return nil
		}
		return sendAll()
	}
	return svc
}

func (r *c01run) client(conn grpc.ClientConnInterface, i int) {
	st := r.rpcs[i]
	sp := st.spec
	ctx, cancel := context.WithCancel(metadata.AppendToOutgoingContext(context.Background(), "verif-rpc", strconv.Itoa(i)))
	defer cancel()
	if sp.Kind == kUnary {
		out := new(pb.Message)
		st.cSendStarted.Store(1)
		if err := conn.Invoke(ctx, mUnary, st.reqs[0], out); err != nil {
			r.fault("rpc %d (unary): Invoke: %v", i, err)
			return
		}
		if string(detBytes(out)) != string(st.respB[0]) {
			r.fault("rpc %d (unary): client received %s, handler returned %s", i, pbFromDet(detBytes(out)), pbFromDet(st.respB[0]))
		}
		st.cRecv.Add(1)
		// the reply is the caller's own: what it does to it is nobody else's business (the handler keeps the object
		// it returned - a cached reply - and must find it as it was)
		flipBytes(out)
		out.Count, out.Code = -out.Count-1, 424242
		if string(detBytes(st.resps[0])) != string(st.respB[0]) {
			r.fault("rpc %d (unary): the caller wrote into the reply it had received, and the message the handler returned (and kept) changed with it", i)
		}
		return
	}
	var copts []grpc.CallOption
	if sp.RecvLimit > 0 {
		copts = append(copts, grpc.MaxCallRecvMsgSize(sp.RecvLimit))
	}
	cs, err := conn.NewStream(ctx, streamDescOf(sp.Kind), methodOf(sp.Kind), copts...)
	if err != nil {
		r.fault("rpc %d (%s): NewStream: %v", i, sp.Kind, err)
		return
	}
	send := func() {
		for j, m := range st.reqs {
			pace(sp.CPace, j)
			st.cSendStarted.Store(int32(j + 1))
			if err := cs.SendMsg(m); err != nil {
				r.fault("rpc %d (%s): client SendMsg #%d: %v", i, sp.Kind, j, err)
				break
			}
			if sp.Scribble {
				flipBytes(m)
				m.Count, m.Code = -m.Count-1, 424242
			}
		}
		if err := cs.CloseSend(); err != nil {
			r.fault("rpc %d (%s): CloseSend: %v", i, sp.Kind, err)
		}
	}
	var wg sync.WaitGroup
	if sp.Duplex {
		wg.Add(1)
		go func() { defer wg.Done(); send() }()
	} else {
		send()
	}
	want := st.respB
	if sp.HeaderFirst {
		// (twice in a row every other time: a logging wrapper and the application both ask)
		for k := 0; k < 1+i%2; k++ {
			if _, err := cs.Header(); err != nil {
				r.fault("rpc %d (%s): Header(): %v", i, sp.Kind, err)
			}
		}
	}
	if sp.HeaderConc {
		wg.Add(1)
		started := make(chan struct{})
		go func() {
			defer wg.Done()
			close(started)
			if _, err := cs.Header(); err != nil {
				r.fault("rpc %d (%s): concurrent Header(): %v", i, sp.Kind, err)
			}
		}()
		<-started
		for k := 0; k < 3; k++ {
			runtime.Gosched() // let it get to wait for the first frame
		}
	}
	cdst := new(pb.Message)
	for j := 0; ; j++ {
		pace(sp.RPace, j)
		m := new(pb.Message)
		if sp.ReuseDst {
			m = cdst
		}
		err := cs.RecvMsg(m)
		if err == io.EOF {
			break
		}
		if err != nil && sp.RecvLimit > 0 && status.Code(err) == codes.ResourceExhausted && j < len(want) && len(mustMarshal(st.resps[j])) > sp.RecvLimit {
			// the limit the caller asked for: the call is over, nothing more is owed
			st.limited.Store(true)
			cancel()
			break
		}
		if err != nil {
			r.fault("rpc %d (%s): client RecvMsg #%d: %v", i, sp.Kind, j, err)
			break
		}
		started := int(st.hSendStarted.Load())
		switch {
		case j >= len(want):
			r.fault("rpc %d (%s): client received a message #%d but the handler sends only %d: %s", i, sp.Kind, j, len(want), pbFromDet(detBytes(m)))
		case string(detBytes(m)) != string(want[j]):
			r.fault("rpc %d (%s): client message #%d is %s, handler's #%d is %s", i, sp.Kind, j, pbFromDet(detBytes(m)), j, pbFromDet(want[j]))
		case started <= j:
			r.fault("rpc %d (%s): client received message #%d before the handler started sending it (started %d)", i, sp.Kind, j, started)
		}
		st.cRecv.Add(1)
		if j > len(want)+3 {
			break
		}
	}
	wg.Wait()
	if int(st.cRecv.Load()) != len(want) && !st.limited.Load() {
		r.fault("rpc %d (%s): call ended successfully after %d of %d response messages", i, sp.Kind, st.cRecv.Load(), len(want))
	}
}

func c01Exec(c *c01Case, carrier string) (faults []string, stalled string) {
	r := newC01Run(c)
	var co carrierOpts
	if c.Chunked && isHTTP(carrier) {
		co.WrapHandler = chunkedMiddleware
	}
	car := newCarrier(carrier, newServiceDesc(), r.service(), co)
	defer car.Close()
	done := make(chan struct{})
	go func() {
		defer close(done)
		var wg sync.WaitGroup
		for i := range r.rpcs {
			wg.Add(1)
			go func(i int) {
				defer wg.Done()
				defer func() {
					if p := recover(); p != nil {
						r.fault("rpc %d: client panic: %v", i, p)
					}
				}()
				r.client(car.Conn, i)
			}(i)
		}
		wg.Wait()
	}()
	select {
	case <-done:
	case <-time.After(90 * time.Second):
		return nil, "case did not finish within 90s\n" + goroutineDump()
	}
	for i, st := range r.rpcs {
		if st.handlerRuns.Load() != 1 {
			r.fault("rpc %d: handler ran %d times", i, st.handlerRuns.Load())
		}
		if int(st.hRecv.Load()) != len(st.reqB) {
			r.fault("rpc %d (%s): handler obtained %d of %d request messages", i, st.spec.Kind, st.hRecv.Load(), len(st.reqB))
		}
	}
	r.mu.Lock()
	defer r.mu.Unlock()
	return r.faults, ""
}

func propC01(c c01Case) *Outcome {
	if c.Fault != "" {
		return c01Fault(c)
	}
	o := &Outcome{}
	o.class("carrier=%s", c.Carrier)
	o.class("concurrent-rpcs=%s", bucket(len(c.RPCs), 1, 2, 4, 8, 16, 64))
	maxLen := 0
	for _, rp := range c.RPCs {
		o.class("kind=%s", rp.Kind)
		if rp.Duplex {
			o.class("duplex")
		}
		if len(rp.Reqs) >= 2 || len(rp.Resps) >= 2 {
			o.NonTrivial = true
		}
		for _, m := range append(append([]MsgSpec{}, rp.Reqs...), rp.Resps...) {
			if m.Empty || m.payloadLen() >= 65536 {
				o.NonTrivial = true
			}
			if m.Empty {
				o.class("has-empty-message")
			}
			if m.payloadLen() > maxLen {
				maxLen = m.payloadLen()
			}
		}
	}
	if len(c.RPCs) >= 2 {
		o.NonTrivial = true
	}
	o.class("max-payload=%s", bucket(maxLen, 0, 64, 4096, 65536, 1<<20, 1<<24, 1<<27))
	faults, stalled := c01Exec(&c, c.Carrier)
	if stalled != "" {
		o.Observed = stalled
		return o.failf("%s: %s", c.Carrier, stalled[:40])
	}
	if len(faults) == 0 {
		return o
	}
	o.Observed = faults
	// the standard transport is the judge of the script itself
	rf, rst := c01Exec(&c, cGRPC)
	if rst != "" || len(rf) > 0 {
		o.Inconclusive = fmt.Sprintf("reference transport does not satisfy the oracle on this case either: %v %s", rf, rst)
		return o
	}
	return o.failf("%s: %s", c.Carrier, faults[0])
}

func bucket(n int, bounds ...int) string {
	for _, b := range bounds {
		if n <= b {
			return "<=" + strconv.Itoa(b)
		}
	}
	return ">" + strconv.Itoa(bounds[len(bounds)-1])
}

func genPace(t *rapid.T, label string, n int) []int {
	if n == 0 || rapid.Bool().Draw(t, label+"-none") {
		return nil
	}
	p := make([]int, n)
	for i := range p {
		p[i] = rapid.SampledFrom([]int{0, 0, 1, 3, 20}).Draw(t, label)
	}
	return p
}

func genC01RPC(t *rapid.T, carrier string, maxMsg int) c01RPC {
	rp := c01RPC{Kind: rapid.SampledFrom(allKinds).Draw(t, "kind")}
	nreq, nresp := 1, 1
	if clientStreaming(rp.Kind) {
		nreq = rapid.IntRange(0, 12).Draw(t, "nreq")
	}
	if serverStreaming(rp.Kind) {
		nresp = rapid.IntRange(0, 12).Draw(t, "nresp")
	}
	for i := 0; i < nreq; i++ {
		rp.Reqs = append(rp.Reqs, genMsg(t, "req", maxMsg))
	}
	for i := 0; i < nresp; i++ {
		rp.Resps = append(rp.Resps, genMsg(t, "resp", maxMsg))
	}
	if rp.Kind == kBidi && carrier == cInproc {
		rp.Duplex = rapid.Bool().Draw(t, "duplex")
	}
	rp.Scribble = rp.Kind != kUnary && rapid.Bool().Draw(t, "scribble")
	rp.HeaderFirst = rp.Kind != kUnary && rapid.IntRange(0, 3).Draw(t, "headerfirst") == 0
	rp.HeaderConc = rp.Kind != kUnary && !rp.HeaderFirst && rapid.IntRange(0, 3).Draw(t, "headerconc") == 0
	rp.ReuseDst = rp.Kind != kUnary && rapid.IntRange(0, 2).Draw(t, "reusedst") == 0
	rp.EarlyHeader = rp.Kind != kUnary && rapid.IntRange(0, 3).Draw(t, "earlyheader") == 0
	if serverStreaming(rp.Kind) && !rp.Duplex && rapid.IntRange(0, 3).Draw(t, "recvlimit") == 0 {
		rp.RecvLimit = rapid.SampledFrom([]int{1, 60, 1000, 5000, 70000}).Draw(t, "recvlimitbytes")
	}
	rp.CPace = genPace(t, "cpace", nreq)
	rp.HPace = genPace(t, "hpace", nresp)
	rp.RPace = genPace(t, "rpace", nresp)
	return rp
}

func genC01(t *rapid.T) c01Case {
	if rapid.IntRange(0, 9).Draw(t, "fault") == 0 {
		c := c01Case{Carrier: rapid.SampledFrom([]string{cHTTP, cHTTPMux, cHTTPPer}).Draw(t, "fcarrier")}
		c.Fault = rapid.SampledFrom([]string{"lost-reply", "short-request"}).Draw(t, "faultkind")
		fs := genScript(t, scriptGenOpts{MaxMsg: 6000, MDKeys: 0, FewOps: true, NoEarly: true, PlainStatus: true, OnlyKinds: []string{kUnary, kUnary, kUnary, kServerStream, kClientStream, kBidi}})
		fs.Spoof, fs.Deadline, fs.OptReuse, fs.RegAllBidi, fs.Chunked, fs.PreSendHdr, fs.SlowFinish = 0, false, false, false, false, false, false
		for i := range fs.Reqs {
			fs.Reqs[i].Anys, fs.Reqs[i].Unknown = nil, nil
		}
		c.FS = &fs
		if c.Fault == "lost-reply" {
			// mostly right at the start of the reply: the handler has run, the client has seen nothing (or little) of it
			c.FaultAt = rapid.SampledFrom([]int{0, 0, 0, 0, 1, 12, 17, 40, 120, 400}).Draw(t, "faultat")
			c.FaultReset = rapid.IntRange(0, 2).Draw(t, "faultreset") == 0
			c.FaultOnBnd = rapid.Bool().Draw(t, "faultonbnd")
			if c.FaultOnBnd {
				c.FaultAt = rapid.IntRange(0, 50).Draw(t, "faultbnd")
			}
		} else {
			c.FaultAt = rapid.IntRange(0, 6000).Draw(t, "faultat")
			c.FaultOnBnd = rapid.IntRange(0, 3).Draw(t, "faultbnd") > 0
		}
		return c
	}
	c := c01Case{Carrier: rapid.SampledFrom(sutCarriers).Draw(t, "carrier")}
	c.Chunked = isHTTP(c.Carrier) && rapid.IntRange(0, 3).Draw(t, "chunked") == 0
	maxK := 16
	if thorough() {
		maxK = 64
	}
	k := rapid.OneOf(rapid.Just(1), rapid.IntRange(2, 4), rapid.IntRange(2, maxK)).Draw(t, "k")
	maxMsg := 1 << 20
	if k > 4 {
		maxMsg = 70000
	}
	for i := 0; i < k; i++ {
		c.RPCs = append(c.RPCs, genC01RPC(t, c.Carrier, maxMsg))
		if c.Chunked {
			// the re-chunking middleware flushes as soon as the header is written, and with that net/http stops
			// reading the request (half-duplex): headers before the end of the request are out of bounds there
			c.RPCs[i].EarlyHeader = false
		}
	}
	return c
}

// fixed large-message cases: size classes are forced, not left to chance.
func c01BigCases() []c01Case {
	sizes := []int{1 << 20, 5 << 20, 17 << 20}
	if thorough() {
		sizes = append(sizes, 48<<20, 96<<20)
	}
	var cs []c01Case
	for _, car := range sutCarriers {
		for _, sz := range sizes {
			big := MsgSpec{Size: sz, Fill: uint32(sz)}
			small := MsgSpec{Raw: []byte("x")}
			cs = append(cs,
				c01Case{Carrier: car, RPCs: []c01RPC{{Kind: kUnary, Reqs: []MsgSpec{big}, Resps: []MsgSpec{big}}}},
				c01Case{Carrier: car, RPCs: []c01RPC{{Kind: kBidi, Reqs: []MsgSpec{small, big, {Empty: true}, small}, Resps: []MsgSpec{big, {Empty: true}, small}}}})
		}
		// many small frames, well over what net/http is prepared to discard of an unread request (256 KiB), to a
		// handler that sends its headers before it starts receiving
		small := MsgSpec{Raw: []byte("x")}
		var many []MsgSpec
		for i := 0; i < 30000; i++ {
			many = append(many, MsgSpec{Raw: []byte(fmt.Sprintf("%07d", i))})
		}
		cs = append(cs, c01Case{Carrier: car, RPCs: []c01RPC{{Kind: kClientStream, Reqs: many, Resps: []MsgSpec{small}, EarlyHeader: true}}},
			c01Case{Carrier: car, RPCs: []c01RPC{{Kind: kBidi, Reqs: []MsgSpec{small, {Size: 300 << 10, Fill: 3}, small, small}, Resps: []MsgSpec{small, small}, EarlyHeader: true}}})
	}
	return cs
}

func init() { registerReplay("C01", propC01) }

const c01Rule = "rapid-generated: carrier x K concurrent RPCs on one channel (K up to 16, thorough 64), each with its own kind, request and response lists (0..12 messages: empty messages, zero-length encodings, maps/Any/unknown fields, payloads up to 1 MiB), per-op pacing, full-duplex bidi on inproc; " +
	"plus forced size classes (1, 5, 17 MiB; thorough 48 and 96 MiB) on every carrier; every message is tagged (rpc, direction, index); oracle at every receive: i-th message obtained equals i-th message of the peer's list and the peer had started sending it; at a successful end both sequences complete; " +
	"also generated since the seeded rounds: senders that scribble over a message right after sending it, header-first clients, receivers decoding into one reused message, Header() from a second goroutine while the receive loop runs, callers asking for a receive size limit below some of the responses, handlers that send their headers before the first receive (also with 30000 small or one 300 KiB request pending), encoded sizes within 12 bytes of every power of two from 64 B to 128 KiB, the per-method HTTP server form (HandleMethod/HandleStream), replies without Content-Length (chunked by a middleware); " +
	"a fault mode over the HTTP server forms (one call: the reply lost after 0..400 bytes once the handler has run, cleanly or by reset; or, over real TCP, a unary or streaming request announced in full, sent up to an offset or a field/frame boundary and then half-closed): whatever the outcome, each side has obtained a message-by-message prefix of what its peer sent; " +
	"grpc-go over bufconn arbitrates any deviation; non-trivial = >=2 messages in a direction, or an empty message, or a message >=64 KiB, or K>=2; distinct by case hash"

func TestC01(t *testing.T) {
	rec("C01").rule = c01Rule
	runEnum(t, "C01", c01BigCases(), propC01)
	if t.Failed() {
		return
	}
	runProp(t, "C01", c01Rule, genC01, propC01)
}
