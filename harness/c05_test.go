package harness

// C05 — stream operations always terminate once the handler returns or the context ends;
// no deadlock, no panic, no leaked goroutine.

import (
	"context"
	"errors"
	"fmt"
	"io"
	"net"
	"net/http"
	"net/http/httptest"
	"net/url"
	"sort"
	"strings"
	"sync"
	"sync/atomic"
	"testing"
	"time"

	"google.golang.org/grpc"
	"google.golang.org/grpc/codes"
	"google.golang.org/grpc/metadata"
	"google.golang.org/grpc/status"
	"pgregory.net/rapid"

	pb "github.com/fullstorydev/grpchan/grpchantesting"
	"github.com/fullstorydev/grpchan/httpgrpc"
)

type c05Case struct {
	Carrier string
	Kind    string
	Steps   []Step
	// BadReplyHeader: a middleware in front of the HTTP server adds a "-bin" reply header that is
	// not valid base64 (the client cannot decode the reply metadata)
	BadReplyHeader bool `json:",omitempty"`
	// Reject: something in front of the HTTP handlers (auth decorator, proxy, wrong mount point) answers the
	// request itself with this HTTP status; the handler never runs and the stream has failed at the HTTP level
	Reject int `json:",omitempty"`
	// FullDuplex (HTTP carriers): the server enables full duplex per request; nothing holds a reply back then, so
	// everything has to finish without the client closing its sending side (the open finding does not apply)
	FullDuplex bool `json:",omitempty"`
	// Unary mode (Kind == unary): a call that the caller may abandon (cancellation, deadline) while the handler is
	// still at work; the handler then sets headers/trailers in the drawn order and returns. Judged: the call
	// returns, the handler's operations return, and no goroutine of the library is left behind.
	UnaryOps   []string `json:",omitempty"` // sethdr | sendhdr | settlr
	UnaryFinal string   `json:",omitempty"` // nil | status | ctx
	UnaryEnd   string   `json:",omitempty"` // none | cancel | deadline
	UnaryReps  int      `json:",omitempty"` // Go's select picks randomly among ready cases
	// DialFailMs > 0: separate mode - the connection attempt of a streaming call fails after this many milliseconds
	// (refused, timeout, DNS) while the caller's context stays alive; the client has started sending meanwhile. Every
	// operation comes back, and nothing of the library is left behind.
	DialFailMs int `json:",omitempty"`
}

var errC05Dial = errors.New("dial tcp 203.0.113.1:443: connect: connection refused (injected)")

func c05DialFail(c c05Case) *Outcome {
	o := &Outcome{NonTrivial: true}
	o.class("carrier=%s/kind=%s", "http-client", c.Kind)
	o.class("dial-fails-after=%dms", c.DialFailMs)
	c05Serial.Lock()
	defer c05Serial.Unlock()
	before, _ := libraryGoroutines()
	tr := &http.Transport{DialContext: func(ctx context.Context, network, addr string) (net.Conn, error) {
		select {
		case <-time.After(time.Duration(c.DialFailMs) * time.Millisecond):
		case <-ctx.Done():
		}
		return nil, errC05Dial
	}}
	defer tr.CloseIdleConnections()
	ch := &httpgrpc.Channel{Transport: tr, BaseURL: baseURL}
	ctx, cancel := context.WithCancel(context.Background())
	defer cancel()
	var sendErr, recvErr, hdrErr error
	stall := guard("client operations of a call whose connection attempt fails", func() {
		cs, err := ch.NewStream(ctx, streamDescOf(c.Kind), methodOf(c.Kind))
		if err != nil {
			recvErr = err
			return
		}
		done := make(chan struct{})
		go func() {
			defer close(done)
			for i := 0; i < 3; i++ {
				if sendErr = cs.SendMsg(&pb.Message{Payload: []byte("chunk")}); sendErr != nil {
					return
				}
			}
		}()
		_, hdrErr = cs.Header()
		recvErr = cs.RecvMsg(new(pb.Message))
		<-done
		cs.CloseSend()
	})
	o.Observed = map[string]interface{}{"send": errStr(sendErr), "recv": errStr(recvErr), "header": errStr(hdrErr)}
	if stall != "" {
		return o.failf("http client/%s: the connection attempt failed after %d ms, the caller's context is alive: %s", c.Kind, c.DialFailMs, firstLine(stall))
	}
	if recvErr == nil || recvErr == io.EOF {
		return o.failf("http client/%s: the connection attempt failed, RecvMsg returned %v", c.Kind, recvErr)
	}
	deadline := time.Now().Add(3 * time.Second)
	for {
		n, dump := libraryGoroutines()
		if n <= before {
			break
		}
		if time.Now().After(deadline) {
			return o.failf("http client/%s: %d library goroutine(s) still alive 3s after a call whose connection attempt failed (caller's context alive):\n%s", c.Kind, n-before, trimDump(dump))
		}
		time.Sleep(500 * time.Microsecond)
	}
	return o
}

type schedResult struct {
	Events          []*Event
	Panics          []string
	StallA          string // the drain phase did not finish (before cancellation)
	StallB          string // operations still blocked after the context was cancelled
	StallPost       string // an operation issued after completion did not return
	Leak            string
	HandlerStatus   uint32
	HandlerRet      bool
	UnreadBytes     int64
	NeededClose     bool // HTTP: pending operations only completed after the harness closed the send side
	HandlerRetEarly bool // the handler returned without needing the client to close/drain first
	HandlerRan      bool
	Cancelled       bool
	SentByClient    []int32
	SentByHandler   []int32
	NewStreamErr    string
}

var c05Serial sync.Mutex // the goroutine census is process-wide

var schedBound = time.Duration(envInt("VERIF_SCHED_BOUND_MS", 10000)) * time.Millisecond

// runSchedule executes the schedule and the completion phases; see DESIGN 2.5.
func runSchedule(carrier, kind string, steps []Step, postOps bool, copt ...carrierOpts) *schedResult {
	res := &schedResult{}
	r := &rpcRun{kind: kind, carrier: carrier, actors: map[string]*actor{"cs": newActor("cs"), "cs2": newActor("cs2"), "cr": newActor("cr"), "cr2": newActor("cr2"), "h": newActor("h"), "h2": newActor("h2")}, hDone: make(chan struct{})}
	hasReturn := false
	for _, st := range steps {
		if a := r.actors[st.Actor]; a != nil {
			a.queue = append(a.queue, st)
			if st.Actor == "h" && st.Op == "return" {
				hasReturn = true
			}
		}
	}
	svc := &Service{Stream: func(k string, stream grpc.ServerStream) error {
		r.mu.Lock()
		r.hStream = stream
		r.handlerStarted = true
		r.mu.Unlock()
		defer close(r.hDone)
		go r.actors["h2"].loop(r) // a second goroutine of the handler using the same stream
		r.actors["h"].loop(r)
		r.mu.Lock()
		code := r.handlerStatus
		r.handlerReturned = true
		r.mu.Unlock()
		return statusOfCode(code)
	}}
	before, _ := libraryGoroutines()
	var co carrierOpts
	if len(copt) > 0 {
		co = copt[0]
	}
	car := newCarrier(carrier, newServiceDesc(), svc, co)
	r.ctx, r.cancel = context.WithCancel(context.Background())
	cs, err := car.Conn.NewStream(r.ctx, streamDescOf(kind), methodOf(kind))
	if err != nil {
		res.NewStreamErr = err.Error()
		r.cancel()
		car.Close()
		return res
	}
	r.cs = cs
	go r.actors["cs"].loop(r)
	go r.actors["cs2"].loop(r)
	go r.actors["cr"].loop(r)
	go r.actors["cr2"].loop(r)
	for _, st := range steps {
		if st.Actor == "x" {
			r.mu.Lock()
			r.cancelled = true
			r.mu.Unlock()
			r.cancel()
			continue
		}
		parked := r.actors[st.Actor].release(r)
		if parked {
			r.mu.Lock()
			for i := len(r.events) - 1; i >= 0; i-- {
				if r.events[i].Step.Actor == st.Actor && !r.events[i].Done {
					r.events[i].Parked = true
					break
				}
			}
			r.mu.Unlock()
		}
	}
	// phase A1: the handler is told to finish its script and return
	if hasReturn {
		r.actors["h"].releaseAll()
	} else {
		r.actors["h"].releaseAll(Step{Actor: "h", Op: "return"})
	}
	r.actors["h2"].releaseAll()
	r.actors["h2"].mu.Lock()
	r.actors["h2"].stopped = true
	r.actors["h2"].cond.Broadcast()
	r.actors["h2"].mu.Unlock()
	r.mu.Lock()
	started := r.handlerStarted
	r.mu.Unlock()
	handlerDone := false
	for i := 0; i < 500 && !handlerDone; i++ {
		select {
		case <-r.hDone:
			handlerDone = true
		default:
			r.mu.Lock()
			started = r.handlerStarted
			r.mu.Unlock()
			if started && i > 50 {
				if gid := r.actors["h"].gidOf(); gid > 0 && blockedState(goroutineState(gid)) {
					i = 500 // parked: it needs the client to move
				}
			}
			time.Sleep(50 * time.Microsecond)
		}
	}
	if !handlerDone && started && carrier == cInproc && !r.wasCancelled() {
		// the in-process channel documents room for one frame in each direction ("backpressure comes from tiny
		// buffer"): the first frame a handler produces (its headers or its first message, nothing set or sent before)
		// is therefore always taken, whether or not anybody receives. A handler parked in that operation can never
		// answer a client that sends everything before it receives (the only order the generated stubs of a
		// client-streaming method allow): both sides wait for each other.
		firstFrame := func() (string, bool) {
			r.mu.Lock()
			defer r.mu.Unlock()
			pending := ""
			for _, ev := range r.events {
				if ev.Step.Actor != "h" && ev.Step.Actor != "h2" {
					continue
				}
				switch ev.Step.Op {
				case "send", "sendhdr", "sethdr":
					if ev.Done {
						return "", false
					}
					if ev.Step.Actor == "h" && ev.Step.Op != "sethdr" {
						pending = ev.Step.Op
					} else {
						return "", false
					}
				}
			}
			return pending, pending != ""
		}
		if op, ok := firstFrame(); ok {
			stuck := true
			for i := 0; i < 60 && stuck; i++ {
				time.Sleep(5 * time.Millisecond)
				gid := r.actors["h"].gidOf()
				_, still := firstFrame()
				select {
				case <-r.hDone:
					still = false
				default:
				}
				stuck = still && gid > 0 && blockedState(goroutineState(gid))
			}
			if stuck {
				res.StallA = fmt.Sprintf("the handler is parked in its first response-side operation (%s; nothing set or sent before it, nobody receiving yet): the one-frame buffer the channel documents did not take it, so a client that sends before it receives waits for the handler and the handler for the client\n%s", op, goroutineDump())
			}
		}
	}
	var drain []Step
	for i := 0; i < len(steps)+4; i++ {
		drain = append(drain, Step{Actor: "cr", Op: "recv"})
	}
	stopWhenDone := func(as ...*actor) {
		for _, a := range as {
			a.mu.Lock()
			a.stopped = true // exit once the released queue is exhausted
			a.cond.Broadcast()
			a.mu.Unlock()
		}
	}
	if handlerDone {
		// phase A2: the handler has returned. Everything the client has pending or still issues
		// must come back by itself - in particular without the client closing its send side.
		res.HandlerRetEarly = true
		// A2a: first the senders alone, nobody receiving: sends must come back (nil or io.EOF)
		// whatever the receiver does, e.g. a client that sends everything before it reads.
		r.actors["cs"].releaseAll()
		r.actors["cs2"].releaseAll()
		if !isHTTP(carrier) && !waitActorsIdle(schedBound, r.actors["cs"], r.actors["cs2"]) {
			res.StallA = fmt.Sprintf("the handler has returned, yet the client's sends (nobody receiving, no CloseSend since) are still blocked after %v\n%s", schedBound, goroutineDump())
		}
		r.actors["cr"].releaseAll(drain...)
		r.actors["cr2"].releaseAll()
		r.mu.Lock()
		closedAlready := r.clientClosed
		r.mu.Unlock()
		// net/http gives up waiting for the end of the request after discarding 256 KiB of it and
		// sends the reply anyway: with more than that offered and unread, nothing is withheld
		unread := r.bytesOffered.Load() - r.bytesTaken.Load()
		res.UnreadBytes = unread
		if isHTTP(carrier) && !closedAlready && unread < 300<<10 && !co.FullDuplex {
			// HTTP/1.1 is half-duplex (httpgrpc/doc.go): net/http withholds the reply until the
			// request body has ended. Give the operations a moment; if they are still pending,
			// end the request and note that this was needed (open known finding).
			if !waitActorsIdle(60*time.Millisecond, r.actors["cs"], r.actors["cs2"], r.actors["cr"], r.actors["cr2"]) {
				res.NeededClose = true
				r.actors["cs"].releaseAll(Step{Actor: "cs", Op: "close"})
			}
		}
		stopWhenDone(r.actors["cs"], r.actors["cs2"], r.actors["cr"], r.actors["cr2"])
		if !waitActors(schedBound, r.actors["cs"], r.actors["cs2"], r.actors["cr"], r.actors["cr2"]) {
			res.StallA = fmt.Sprintf("the handler has returned (client closed its send side: %v), yet client operations are still blocked after %v\n%s", closedAlready || res.NeededClose, schedBound, goroutineDump())
		}
	} else {
		// phase A3: the handler waits for the client: close the send side and drain
		r.actors["cs"].releaseAll(Step{Actor: "cs", Op: "close"})
		r.actors["cs2"].releaseAll()
		r.actors["cr"].releaseAll(drain...)
		r.actors["cr2"].releaseAll()
		stopWhenDone(r.actors["cs"], r.actors["cs2"], r.actors["cr"], r.actors["cr2"])
		clientDone := waitActors(schedBound, r.actors["cs"], r.actors["cs2"], r.actors["cr"], r.actors["cr2"])
		hd := true
		r.mu.Lock()
		started = r.handlerStarted
		r.mu.Unlock()
		if started {
			select {
			case <-r.hDone:
			case <-time.After(schedBound):
				hd = false
			}
		}
		if !clientDone || !hd {
			res.StallA = fmt.Sprintf("after the client closed its side and drained, and the handler was told to return: client actors finished=%v, handler finished=%v within %v\n%s", clientDone, hd, schedBound, goroutineDump())
		}
	}
	// census A: the handler has returned and the client has received its final status (it read until an
	// error): that alone releases everything the call held - a caller is not obliged to cancel its context
	// as well
	if res.StallA == "" && !r.wasCancelled() && r.clientSawFinal() {
		deadline := time.Now().Add(3 * time.Second)
		for {
			n, dump := libraryGoroutines()
			if n <= before {
				break
			}
			if time.Now().After(deadline) {
				res.Leak = fmt.Sprintf("%d library goroutine(s) still alive 3s after the handler returned and the client received the final status, context not cancelled (baseline %d):\n%s", n, before, dump)
				break
			}
			time.Sleep(200 * time.Microsecond)
		}
	}
	// phase B: context done => everything must come back
	r.mu.Lock()
	r.cancelled = true
	r.mu.Unlock()
	r.cancel()
	if !waitActors(schedBound, r.actors["cs"], r.actors["cs2"], r.actors["cr"], r.actors["cr2"]) {
		res.StallB = "client operations still blocked " + schedBound.String() + " after the context was cancelled\n" + goroutineDump()
	}
	if started {
		if !waitActors(schedBound, r.actors["h2"]) {
			res.StallB += "second handler goroutine still blocked " + schedBound.String() + " after the context was cancelled\n" + goroutineDump()
		}
		select {
		case <-r.hDone:
		case <-time.After(schedBound):
			res.StallB += "handler still blocked " + schedBound.String() + " after the context was cancelled\n" + goroutineDump()
			r.actors["h"].stop()
		}
	}
	// operations issued after completion
	if postOps && res.StallB == "" {
		res.StallPost = guardFor(schedBound, "operations after completion", func() {
			defer func() {
				if p := recover(); p != nil {
					r.mu.Lock()
					r.panics = append(r.panics, fmt.Sprintf("post-completion op: %v", p))
					r.mu.Unlock()
				}
			}()
			cs.RecvMsg(new(pb.Message))
			cs.SendMsg(&pb.Message{})
			cs.Header()
			cs.Trailer()
			cs.CloseSend()
			cs.CloseSend()
			cs.RecvMsg(new(pb.Message))
		})
	}
	car.Close()
	// census
	if res.StallB == "" && res.StallPost == "" && res.Leak == "" {
		deadline := time.Now().Add(5 * time.Second)
		for {
			n, dump := libraryGoroutines()
			if n <= before {
				break
			}
			if time.Now().After(deadline) {
				res.Leak = fmt.Sprintf("%d library goroutine(s) still alive 5s after the call completed, was consumed and its context cancelled (baseline %d):\n%s", n, before, dump)
				break
			}
			time.Sleep(200 * time.Microsecond)
		}
	}
	r.mu.Lock()
	defer r.mu.Unlock()
	res.Events, res.Panics = r.events, r.panics
	res.HandlerStatus, res.HandlerRet, res.HandlerRan, res.Cancelled = r.handlerStatus, r.handlerReturned, r.handlerStarted, r.cancelled
	res.SentByClient, res.SentByHandler = r.sentByClient, r.sentByHandler
	return res
}

func guardFor(d time.Duration, what string, f func()) string {
	done := make(chan struct{})
	go func() {
		defer close(done)
		f()
	}()
	select {
	case <-done:
		return ""
	case <-time.After(d):
		return what + " did not return within " + d.String() + "\n" + goroutineDump()
	}
}

func trimDump(s string) string {
	if len(s) > 6000 {
		return s[:6000] + "\n...(truncated)"
	}
	return s
}

// c05Unary: one abandoned (or plainly completed) unary call, repeated; see c05Case.UnaryOps.
func c05Unary(c c05Case) *Outcome {
	o := &Outcome{NonTrivial: c.UnaryEnd != "none"}
	o.class("carrier=%s/kind=%s", c.Carrier, c.Kind)
	o.class("unary/end=%s/final=%s/ops=%d", c.UnaryEnd, c.UnaryFinal, len(c.UnaryOps))
	c05Serial.Lock()
	defer c05Serial.Unlock()
	before, _ := libraryGoroutines()
	type sig struct{ started, done chan struct{} }
	var mu sync.Mutex
	sigs := make([]*sig, c.UnaryReps)
	for i := range sigs {
		sigs[i] = &sig{started: make(chan struct{}), done: make(chan struct{})}
	}
	var opStall string
	svc := &Service{Unary: func(hctx context.Context, req *pb.Message) (*pb.Message, error) {
		if req.Count < 0 || int(req.Count) >= len(sigs) {
			return nil, status.Error(codes.Internal, "harness: unknown call")
		}
		g := sigs[req.Count]
		defer close(g.done)
		close(g.started)
		if c.UnaryEnd != "none" {
			select {
			case <-hctx.Done():
			case <-time.After(stallBound / 2):
				// over HTTP a handler need not learn that the caller went away; it just carries on
			}
		}
		if st := guardFor(stallBound/2, "handler's header/trailer operations", func() {
			for _, op := range c.UnaryOps {
				switch op {
				case "sethdr":
					grpc.SetHeader(hctx, metadata.Pairs("h", "1"))
				case "sendhdr":
					grpc.SendHeader(hctx, metadata.Pairs("h", "2"))
				case "settlr":
					grpc.SetTrailer(hctx, metadata.Pairs("t", "1"))
				}
			}
		}); st != "" {
			mu.Lock()
			opStall = st
			mu.Unlock()
		}
		switch c.UnaryFinal {
		case "status":
			return nil, status.Error(codes.FailedPrecondition, "scripted")
		case "ctx":
			if err := hctx.Err(); err != nil {
				return nil, err
			}
			return nil, context.Canceled
		}
		return &pb.Message{Count: 7}, nil
	}}
	car := newCarrier(c.Carrier, newServiceDesc(), svc, carrierOpts{})
	defer car.Close()
	var results []string
	for rep := 0; rep < c.UnaryReps; rep++ {
		g := sigs[rep]
		ctx, cancel := context.WithCancel(context.Background())
		if c.UnaryEnd == "deadline" {
			ctx, cancel = context.WithTimeout(context.Background(), 15*time.Millisecond)
		}
		var err error
		stall := guard("unary call", func() {
			if c.UnaryEnd == "cancel" {
				go func() {
					select {
					case <-g.started:
					case <-time.After(stallBound / 2):
					}
					cancel()
				}()
			}
			err = car.Conn.Invoke(ctx, mUnary, &pb.Message{Count: int32(rep)}, new(pb.Message))
		})
		cancel()
		results = append(results, errStr(err))
		o.Observed = map[string]interface{}{"results": results}
		if stall != "" {
			return o.failf("%s/unary (end=%s, handler ops %v, final %s), call %d: %s", c.Carrier, c.UnaryEnd, c.UnaryOps, c.UnaryFinal, rep, stall)
		}
		if c.UnaryEnd == "none" {
			if (c.UnaryFinal == "nil") != (err == nil) {
				return o.failf("%s/unary (handler ops %v, final %s), call %d: caller got %s", c.Carrier, c.UnaryOps, c.UnaryFinal, rep, errStr(err))
			}
		} else if err == nil && c.UnaryFinal != "nil" {
			return o.failf("%s/unary (end=%s, final %s), call %d: caller got success", c.Carrier, c.UnaryEnd, c.UnaryFinal, rep)
		}
		// the handler has been started (unless the call ended before it was dispatched) and comes to an end
		select {
		case <-g.started:
			select {
			case <-g.done:
			case <-time.After(stallBound):
				return o.failf("%s/unary (end=%s, handler ops %v, final %s), call %d: handler still running after %v\n%s", c.Carrier, c.UnaryEnd, c.UnaryOps, c.UnaryFinal, rep, stallBound, goroutineDump())
			}
		case <-time.After(100 * time.Millisecond):
			// not dispatched so far (the context ended first); should it start late it finds its context done and
			// returns at once, well within the census bound below
		}
		mu.Lock()
		st := opStall
		mu.Unlock()
		if st != "" {
			return o.failf("%s/unary (end=%s, handler ops %v), call %d: %s", c.Carrier, c.UnaryEnd, c.UnaryOps, rep, st)
		}
	}
	deadline := time.Now().Add(3 * time.Second)
	for {
		n, dump := libraryGoroutines()
		if n <= before {
			break
		}
		if time.Now().After(deadline) {
			return o.failf("%s/unary (end=%s, handler ops %v, final %s): %d library goroutine(s) still alive 3s after %d call(s) ended and their handlers returned:\n%s", c.Carrier, c.UnaryEnd, c.UnaryOps, c.UnaryFinal, n-before, c.UnaryReps, trimDump(dump))
		}
		time.Sleep(500 * time.Microsecond)
	}
	if c.UnaryEnd == "none" && isHTTP(c.Carrier) {
		return c05UnaryConns(c, o)
	}
	return o
}

// countingConn / c05UnaryConns: what a finished unary call leaves behind at the HTTP level. The caller's context
// stays alive; once the call has returned (success or a status from the handler) its connection is either back in
// the transport's idle pool or closed - so after CloseIdleConnections nothing is open any more. A reply body that
// is never read to its end or closed pins the connection and the transport's goroutines for good.
type countingConn struct {
	net.Conn
	once sync.Once
	open *atomic.Int64
}

func (c *countingConn) Close() error {
	c.once.Do(func() { c.open.Add(-1) })
	return c.Conn.Close()
}

func c05UnaryConns(c c05Case, o *Outcome) *Outcome {
	svc := &Service{Unary: func(hctx context.Context, req *pb.Message) (*pb.Message, error) {
		for _, op := range c.UnaryOps {
			switch op {
			case "sethdr":
				grpc.SetHeader(hctx, metadata.Pairs("h", "1"))
			case "sendhdr":
				grpc.SendHeader(hctx, metadata.Pairs("h", "2"))
			case "settlr":
				grpc.SetTrailer(hctx, metadata.Pairs("t", "1"))
			}
		}
		if c.UnaryFinal != "nil" {
			return nil, status.Error(codes.FailedPrecondition, strings.Repeat("scripted ", 1+int(req.Count)*40))
		}
		return &pb.Message{Count: 7}, nil
	}}
	srv := httptest.NewServer(newHTTPHandlerBase(c.Carrier, "", newServiceDesc(), svc))
	defer srv.Close()
	var open atomic.Int64
	dials := 0
	tr := &http.Transport{DialContext: func(ctx context.Context, network, addr string) (net.Conn, error) {
		conn, err := (&net.Dialer{}).DialContext(ctx, network, addr)
		if err != nil {
			return nil, err
		}
		dials++
		open.Add(1)
		return &countingConn{Conn: conn, open: &open}, nil
	}}
	u, _ := url.Parse(srv.URL)
	ch := &httpgrpc.Channel{Transport: tr, BaseURL: u}
	for rep := 0; rep < c.UnaryReps; rep++ {
		var err error
		var hdr, tlr metadata.MD
		if stall := guard("unary call", func() {
			err = ch.Invoke(context.Background(), mUnary, &pb.Message{Count: int32(rep)}, new(pb.Message), grpc.Header(&hdr), grpc.Trailer(&tlr))
		}); stall != "" {
			return o.failf("%s/unary, connection census, call %d: %s", c.Carrier, rep, stall)
		}
		if (c.UnaryFinal == "nil") != (err == nil) {
			return o.failf("%s/unary, connection census (final %s), call %d: caller got %s", c.Carrier, c.UnaryFinal, rep, errStr(err))
		}
	}
	deadline := time.Now().Add(3 * time.Second)
	for {
		tr.CloseIdleConnections()
		n := open.Load()
		if n <= 0 {
			break
		}
		if time.Now().After(deadline) {
			return o.failf("%s/unary (handler ops %v, final %s): %d call(s) have returned (caller's context alive, %d connection(s) dialled): %d connection(s) are neither idle nor closed 3s later - their replies were never released", c.Carrier, c.UnaryOps, c.UnaryFinal, c.UnaryReps, dials, n)
		}
		time.Sleep(time.Millisecond)
	}
	o.class("unary/connection-census")
	return o
}

func propC05(c c05Case) *Outcome {
	if c.DialFailMs > 0 {
		return c05DialFail(c)
	}
	if c.Kind == kUnary {
		return c05Unary(c)
	}
	o := &Outcome{}
	o.class("carrier=%s/kind=%s", c.Carrier, c.Kind)
	cancelInScript := false
	for _, st := range c.Steps {
		if st.Actor == "x" {
			cancelInScript = true
		}
	}
	c05Serial.Lock()
	var co carrierOpts
	if c.BadReplyHeader && isHTTP(c.Carrier) {
		o.class("undecodable-reply-metadata")
		co.WrapHandler = func(h http.Handler) http.Handler {
			return http.HandlerFunc(func(w http.ResponseWriter, r *http.Request) {
				w.Header().Set("X-Trace-Bin", "abc") // not padded URL-safe base64
				h.ServeHTTP(w, r)
			})
		}
	}
	if c.FullDuplex && isHTTP(c.Carrier) {
		o.class("full-duplex-server")
		co.FullDuplex = true
	}
	if c.Reject != 0 && isHTTP(c.Carrier) {
		o.class("rejected-at-http-level")
		co.WrapHandler = func(h http.Handler) http.Handler {
			return http.HandlerFunc(func(w http.ResponseWriter, r *http.Request) {
				http.Error(w, http.StatusText(c.Reject), c.Reject)
			})
		}
		var steps []Step
		for _, st := range c.Steps {
			if st.Actor != "h" && st.Actor != "h2" {
				steps = append(steps, st)
			}
		}
		c.Steps = steps
	}
	res := runSchedule(c.Carrier, c.Kind, c.Steps, true, co)
	c05Serial.Unlock()
	obs := map[string]interface{}{"events": res.Events, "handler_status": res.HandlerStatus, "sent_by_handler": res.SentByHandler, "sent_by_client": res.SentByClient}
	o.Observed = obs
	// non-trivial: the handler returned while a client op was pending or still to come, or ops after completion, or close racing send
	for _, e := range res.Events {
		if (e.Step.Actor == "cs" || e.Step.Actor == "cs2" || e.Step.Actor == "cr" || e.Step.Actor == "cr2") && e.HandlerReturned && e.Seq <= len(c.Steps) {
			o.NonTrivial = true
		}
		if e.Parked {
			o.class("parked:%s/%s", e.Step.Actor, e.Step.Op)
		}
	}
	if cancelInScript {
		o.class("cancel-in-script")
	}
	o.class("handler-returned-on-its-own=%v", res.HandlerRetEarly)
	if res.NeededClose {
		if !knownOpen("C05", "http-reply-withheld-until-request-ends") {
			obs["dump"] = "pending client operations completed only after CloseSend"
			return o.failf("%s/%s: the handler has returned, yet pending client operations did not complete until the client closed its send side", c.Carrier, c.Kind)
		}
		o.Known = append(o.Known, "http-reply-withheld-until-request-ends")
	}
	if res.NewStreamErr != "" {
		return o.failf("NewStream failed: %s", res.NewStreamErr)
	}
	if len(res.Panics) > 0 {
		return o.failf("%s/%s: panic: %s", c.Carrier, c.Kind, res.Panics[0])
	}
	if res.StallB != "" {
		obs["dump"] = trimDump(res.StallB)
		return o.failf("%s/%s: %s", c.Carrier, c.Kind, firstLine(res.StallB))
	}
	if res.StallA != "" {
		obs["dump"] = trimDump(res.StallA)
		return o.failf("%s/%s: deadlock until cancellation: %s", c.Carrier, c.Kind, firstLine(res.StallA))
	}
	if res.StallPost != "" {
		obs["dump"] = trimDump(res.StallPost)
		return o.failf("%s/%s: %s", c.Carrier, c.Kind, firstLine(res.StallPost))
	}
	if res.Leak != "" {
		obs["dump"] = trimDump(res.Leak)
		return o.failf("%s/%s: %s", c.Carrier, c.Kind, firstLine(res.Leak))
	}
	// result classes (only while nobody cancelled)
	var recvd []int32
	finalSeen := ""
	cardinalityEnd := false
	byDone := append([]*Event{}, res.Events...)
	sort.SliceStable(byDone, func(i, j int) bool { return byDone[i].DoneSeq < byDone[j].DoneSeq })
	cardAny := false
	for _, e := range byDone {
		if !serverStreaming(c.Kind) && e.Step.Actor == "cr" && e.Step.Op == "recv" && e.ErrKind == "status:13" {
			cardAny = true
		}
	}
	for _, e := range byDone {
		if !e.Done {
			return o.failf("%s/%s: step %d (%s %s) never completed", c.Carrier, c.Kind, e.Seq, e.Step.Actor, e.Step.Op)
		}
		if e.Cancelled {
			continue
		}
		if !serverStreaming(c.Kind) && e.Step.Actor == "cr" && e.Step.Op == "recv" && e.ErrKind == "status:13" {
			// the client transport itself ended the call (more than one response to a single-response
			// method): from here on the call is over, as if cancelled
			cardinalityEnd = true
		}
		if cardinalityEnd {
			continue
		}
		evKey := e.Step.Actor + "/" + e.Step.Op
		if e.Step.Actor == "cs2" {
			evKey = "cs/" + e.Step.Op
		}
		if e.Step.Actor == "cr2" {
			evKey = "cr/" + e.Step.Op
		}
		badHdr := (c.BadReplyHeader || c.Reject != 0) && isHTTP(c.Carrier)
		switch evKey {
		case "cs/send":
			if e.ClientClosed || cardAny || badHdr {
				// badHdr: the client fails the call by itself once the undecodable reply headers arrive
				// send after our own CloseSend: any error. cardAny: the client transport ends the
				// call by itself at some point of this run (surplus response); a send racing
				// with that may see the cancellation before the receive that caused it returns
				break
			}
			switch e.ErrKind {
			case "nil":
			case "eof":
				if !e.HandlerReturned {
					return o.failf("%s/%s: SendMsg returned io.EOF while the handler was still running and nobody cancelled", c.Carrier, c.Kind)
				}
			default:
				return o.failf("%s/%s: SendMsg (handler returned=%v, context live, send side open) returned %s - want nil or io.EOF", c.Carrier, c.Kind, e.HandlerReturned, e.Err)
			}
		case "cr/recv":
			if e.ErrKind == "nil" {
				if finalSeen != "" {
					return o.failf("%s/%s: RecvMsg delivered a message after the final status %s", c.Carrier, c.Kind, finalSeen)
				}
				recvd = append(recvd, e.MsgTag)
				break
			}
			if badHdr {
				break
			}
			if !e.HandlerReturned && !(!serverStreaming(c.Kind) && e.ErrKind == "status:13") {
				return o.failf("%s/%s: RecvMsg failed with %s while the handler was still running and nobody cancelled", c.Carrier, c.Kind, e.Err)
			}
			if finalSeen == "" {
				finalSeen = e.ErrKind
			} else if e.ErrKind != finalSeen && !c05Cardinality(c.Kind, res) {
				return o.failf("%s/%s: final status changed between RecvMsg calls: %s then %s", c.Carrier, c.Kind, finalSeen, e.ErrKind)
			}
		case "cr/header":
			if e.ErrKind != "nil" && !e.HandlerReturned && !badHdr {
				return o.failf("%s/%s: Header() failed with %s while the handler was still running", c.Carrier, c.Kind, e.Err)
			}
		case "cs/close":
			if e.ErrKind != "nil" && !e.HandlerReturned {
				return o.failf("%s/%s: CloseSend returned %s", c.Carrier, c.Kind, e.Err)
			}
		}
	}
	if (c.BadReplyHeader || c.Reject != 0) && isHTTP(c.Carrier) {
		return o // the call fails on the client (reply metadata undecodable): only termination, panics and leaks are judged
	}
	if !cancelInScript {
		// delivered responses: an intact prefix of what the handler sent, complete at the end
		// (with two handler goroutines sending, the order between them is the library's to
		// choose; each goroutine's own messages must stay in order)
		sentBy := map[int32]string{}
		for _, e := range res.Events {
			if (e.Step.Actor == "h" || e.Step.Actor == "h2") && e.Step.Op == "send" && e.ErrKind == "nil" {
				sentBy[e.MsgTag] = e.Step.Actor
			}
		}
		last := map[string]int32{}
		seen := map[int32]bool{}
		for i, tag := range recvd {
			who, ok := sentBy[tag]
			if !ok || seen[tag] {
				return o.failf("%s/%s: client received message tag %d at position %d (duplicate=%v); handler sent %v", c.Carrier, c.Kind, tag, i, seen[tag], res.SentByHandler)
			}
			seen[tag] = true
			if tag < last[who] {
				return o.failf("%s/%s: messages of handler goroutine %s arrived out of order: %v (sent %v)", c.Carrier, c.Kind, who, recvd, res.SentByHandler)
			}
			last[who] = tag
		}
		// nothing skipped: every message sent before a received one (by the same goroutine) was received too
		for tag, who := range sentBy {
			if !seen[tag] && tag < last[who] {
				return o.failf("%s/%s: message tag %d of handler goroutine %s was skipped: received %v", c.Carrier, c.Kind, tag, who, recvd)
			}
		}
		if !c05Cardinality(c.Kind, res) && res.HandlerRan {
			want := "eof"
			if res.HandlerStatus != 0 {
				want = fmt.Sprintf("status:%d", res.HandlerStatus)
			}
			if finalSeen != want {
				return o.failf("%s/%s: handler returned %s, client's final status is %q", c.Carrier, c.Kind, want, finalSeen)
			}
			if finalSeen == "eof" && len(recvd) != len(res.SentByHandler) {
				return o.failf("%s/%s: stream ended OK after %d of %d messages", c.Carrier, c.Kind, len(recvd), len(res.SentByHandler))
			}
		}
	}
	return o
}

// cardinality: a single-response method whose handler did not send exactly one message (with
// OK), or a single-request method that did not get exactly one request: the final status is then
// the transport's own and not compared.
func c05Cardinality(kind string, res *schedResult) bool {
	// count attempted sends: a send that was cut short by the end of the call may or may not
	// have put its message on the wire
	attempts := 0
	for _, e := range res.Events {
		if (e.Step.Actor == "h" || e.Step.Actor == "h2") && e.Step.Op == "send" {
			attempts++
		}
	}
	if !serverStreaming(kind) && !(attempts == 1 && len(res.SentByHandler) == 1 || (attempts == 0 && res.HandlerStatus != 0)) {
		return true
	}
	if !clientStreaming(kind) && len(res.SentByClient) != 1 {
		return true
	}
	return false
}

func firstLine(s string) string {
	if i := strings.IndexByte(s, '\n'); i >= 0 {
		return s[:i]
	}
	return s
}

func genSteps(t *rapid.T, kind string, allowCancel bool, maxSteps int) []Step {
	return genStepsFor(t, kind, allowCancel, maxSteps, false)
}

func genStepsFor(t *rapid.T, kind string, allowCancel bool, maxSteps int, secondHandlerGoroutine bool) []Step {
	var steps []Step
	if !clientStreaming(kind) {
		steps = append(steps, Step{Actor: "cs", Op: "send", Size: 3})
		if rapid.Bool().Draw(t, "close-first") {
			steps = append(steps, Step{Actor: "cs", Op: "close"})
		}
	}
	n := rapid.IntRange(1, maxSteps).Draw(t, "nsteps")
	returned := false
	for i := 0; i < n; i++ {
		actorPool := []string{"cs", "cr", "cr", "h", "h"}
		if !clientStreaming(kind) {
			actorPool = []string{"cr", "cr", "h", "h", "cs"}
		}
		if secondHandlerGoroutine {
			actorPool = append(actorPool, "h2")
		}
		if clientStreaming(kind) {
			actorPool = append(actorPool, "cs2")
		}
		actorPool = append(actorPool, "cr2")
		a := rapid.SampledFrom(actorPool).Draw(t, "actor")
		st := Step{Actor: a}
		switch a {
		case "h2":
			st.Op = rapid.SampledFrom([]string{"send", "send", "recv", "settlr", "sethdr", "sendhdr"}).Draw(t, "h2op")
			if st.Op == "send" {
				st.Size = rapid.SampledFrom([]int{0, 5, 200}).Draw(t, "size")
			}
		case "cs2":
			// a second client goroutine: CloseSend racing whatever the sender is doing
			st.Op = "close"
		case "cr2":
			// a second receiving goroutine: Header() concurrently with the receiver's RecvMsg
			st.Op = "header"
		case "cs":
			st.Op = rapid.SampledFrom([]string{"send", "send", "send", "close"}).Draw(t, "csop")
			if !clientStreaming(kind) {
				st.Op = "close"
			}
			if st.Op == "send" {
				st.Size = rapid.SampledFrom([]int{0, 5, 5, 200, 100000, 120000, 350000}).Draw(t, "size")
			}
		case "cr":
			st.Op = rapid.SampledFrom([]string{"recv", "recv", "recv", "header", "trailer"}).Draw(t, "crop")
		case "h":
			if returned {
				continue
			}
			st.Op = rapid.SampledFrom([]string{"recv", "recv", "send", "send", "sethdr", "sendhdr", "settlr", "return"}).Draw(t, "hop")
			switch st.Op {
			case "send":
				st.Size = rapid.SampledFrom([]int{0, 5, 5, 200, 100000}).Draw(t, "size")
			case "return":
				st.Code = rapid.SampledFrom([]uint32{0, 0, 9, 14}).Draw(t, "code")
				returned = true
			}
		}
		steps = append(steps, st)
		if allowCancel && rapid.IntRange(0, 79).Draw(t, "cancel") == 0 {
			steps = append(steps, Step{Actor: "x", Op: "cancel"})
		}
	}
	return steps
}

func genC05(t *rapid.T) c05Case {
	if rapid.IntRange(0, 39).Draw(t, "dialfail") == 0 {
		return c05Case{Carrier: cHTTP, Kind: rapid.SampledFrom([]string{kClientStream, kBidi, kServerStream}).Draw(t, "dfkind"), DialFailMs: rapid.SampledFrom([]int{1, 20, 100}).Draw(t, "dfms")}
	}
	if rapid.IntRange(0, 11).Draw(t, "unary") == 0 {
		c := c05Case{Carrier: rapid.SampledFrom([]string{cInproc, cInproc, cInproc, cHTTP, cHTTPMux, cHTTPPer}).Draw(t, "ucarrier"), Kind: kUnary}
		c.UnaryOps = rapid.SliceOfN(rapid.SampledFrom([]string{"sethdr", "sendhdr", "settlr"}), 0, 3).Draw(t, "uops")
		c.UnaryFinal = rapid.SampledFrom([]string{"nil", "status", "ctx"}).Draw(t, "ufinal")
		c.UnaryEnd = rapid.SampledFrom([]string{"none", "cancel", "cancel", "deadline"}).Draw(t, "uend")
		c.UnaryReps = rapid.IntRange(3, 8).Draw(t, "ureps")
		return c
	}
	c := c05Case{Carrier: rapid.SampledFrom([]string{cInproc, cInproc, cInproc, cHTTP, cHTTPMux, cHTTPPer}).Draw(t, "carrier"), Kind: rapid.SampledFrom([]string{kClientStream, kServerStream, kBidi, kBidi}).Draw(t, "kind")}
	c.Steps = genStepsFor(t, c.Kind, true, 14, c.Carrier == cInproc && rapid.Bool().Draw(t, "h2"))
	if c.Kind == kClientStream && rapid.IntRange(0, 5).Draw(t, "overrespond") == 0 {
		// a handler that answers a single-response method three to five times (drawn deliberately: the
		// random schedules rarely line up that many sends), then whatever else was drawn
		var pre []Step
		if rapid.Bool().Draw(t, "overrespond-close") {
			pre = append(pre, Step{Actor: "cs", Op: "close"})
		}
		for i, n := 0, rapid.IntRange(3, 5).Draw(t, "overrespond-n"); i < n; i++ {
			pre = append(pre, Step{Actor: "h", Op: "send", Size: 5})
		}
		c.Steps = append(pre, c.Steps...)
	}
	if clientStreaming(c.Kind) && rapid.IntRange(0, 7).Draw(t, "senderahead") == 0 {
		// drawn deliberately: the client's sender is ahead of the handler (2..4 sends, nobody receiving), the handler
		// sets headers and/or trailers and leaves (with or without an error) - then whatever else was drawn
		var pre []Step
		for i, n := 0, rapid.IntRange(2, 4).Draw(t, "senderahead-n"); i < n; i++ {
			pre = append(pre, Step{Actor: "cs", Op: "send", Size: 5})
		}
		for _, op := range rapid.SliceOfNDistinct(rapid.SampledFrom([]string{"sethdr", "sendhdr", "settlr"}), 0, 3, func(s string) string { return s }).Draw(t, "senderahead-ops") {
			pre = append(pre, Step{Actor: "h", Op: op})
		}
		pre = append(pre, Step{Actor: "h", Op: "return", Code: rapid.SampledFrom([]uint32{0, 7, 9}).Draw(t, "senderahead-code")})
		var rest []Step
		for _, st := range c.Steps {
			if st.Actor != "h" { // the handler is gone
				rest = append(rest, st)
			}
		}
		c.Steps = append(pre, rest...)
	}
	if c.Carrier == cInproc && c.Kind == kBidi && rapid.IntRange(0, 9).Draw(t, "helperahead") == 0 {
		// drawn deliberately: a helper goroutine of the handler pushes responses nobody takes yet (its second send
		// parks), the client's sender runs ahead as well (its sends park too), and the handler itself returns
		pre := []Step{{Actor: "h2", Op: "send", Size: 5}, {Actor: "h2", Op: "send", Size: 5}}
		for i, n := 0, rapid.IntRange(2, 3).Draw(t, "helperahead-n"); i < n; i++ {
			pre = append(pre, Step{Actor: "cs", Op: "send", Size: 5})
		}
		pre = append(pre, Step{Actor: "h", Op: "return", Code: rapid.SampledFrom([]uint32{0, 3}).Draw(t, "helperahead-code")})
		var rest []Step
		for _, st := range c.Steps {
			if st.Actor != "h" && st.Actor != "h2" {
				rest = append(rest, st)
			}
		}
		c.Steps = append(pre, rest...)
	}
	c.BadReplyHeader = isHTTP(c.Carrier) && rapid.IntRange(0, 9).Draw(t, "badhdr") == 0
	c.FullDuplex = isHTTP(c.Carrier) && rapid.IntRange(0, 2).Draw(t, "fullduplex") == 0
	if isHTTP(c.Carrier) && !c.BadReplyHeader && rapid.IntRange(0, 19).Draw(t, "reject") == 0 {
		c.Reject = rapid.SampledFrom([]int{401, 403, 404, 415, 502, 503}).Draw(t, "rejectstatus")
	}
	return c
}

func init() { registerReplay("C05", propC05) }

const c05Rule = "rapid-generated schedules of <=14 steps over three actors (client sender: SendMsg small/medium, CloseSend also repeated; client receiver: RecvMsg, Header, Trailer; handler: RecvMsg, SendMsg, SetHeader, SendHeader, SetTrailer, return ok/err) plus cancellation, on the in-process channel, httpgrpc.Server and HandleServices for client-, server- and bidi-streaming; each step is released when the previous one has returned or parked (goroutine state from runtime.Stack); " +
	"then phase A (client closes and drains, handler returns), phase B (context cancelled), operations after completion, goroutine census; invariants: no panic; everything finishes in phase A (10 s, stable park = deadlock) and certainly in phase B; later operations return; without cancellation sends return nil or io.EOF (EOF only once the handler returned), receives are an intact prefix of what the handler sent followed by the handler's status, stable across repeated calls; no library goroutine survives; " +
	"also generated since the seeded rounds: a second client goroutine calling CloseSend, a second handler goroutine (in-process) incl. SendHeader after the handler returned, sends above 256 KiB, undecodable reply headers and HTTP-level rejection (401/403/404/415/502/503 from a middleware: only termination, panics and leaks judged), senders-only drain stage, a second receiving goroutine calling Header() concurrently with RecvMsg, the per-method HTTP server form, handlers answering a single-response method 3..5 times, a sender 2..4 messages ahead of a handler that sets headers/trailers and leaves, a handler that returns while its helper goroutine and the client's sender are both parked in sends, and a goroutine census taken before any cancellation once the client has received the final status; streaming calls whose connection attempt fails after 1..100 ms while the client has started sending and the caller's context stays alive; unary calls (3..8 in a row) that the caller abandons by cancellation or deadline while the handler is at work, the handler then setting/sending headers and trailers in any order and returning nil, a status or its context's error (call returns, handler operations return, no library goroutine left); unary calls over HTTP that are not abandoned, through a transport with a counting dialer (once they have returned, CloseIdleConnections leaves no connection open); in-process: a handler parked in its first response-side frame (nothing set or sent before) is a deadlock, the documented one-frame buffer takes it whoever receives; " +
	"non-trivial = a scheduled client operation was pending or issued after the handler returned; distinct by case hash"

func TestC05(t *testing.T) {
	runProp(t, "C05", c05Rule, genC05, propC05)
}
