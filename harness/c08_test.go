package harness

// C08 — single-response methods yield exactly one response or an error.

import (
	"bytes"
	"context"
	"fmt"
	"io"
	"net/http"
	"net/http/httptest"
	"strings"
	"sync"
	"testing"
	"unicode/utf8"

	"google.golang.org/grpc"
	"google.golang.org/grpc/codes"
	"google.golang.org/grpc/status"
	"google.golang.org/protobuf/encoding/protojson"
	"google.golang.org/protobuf/proto"
	"pgregory.net/rapid"

	"github.com/fullstorydev/grpchan"
	pb "github.com/fullstorydev/grpchan/grpchantesting"
	"github.com/fullstorydev/grpchan/httpgrpc"
)

type c08Case struct {
	Mode       string // resp-count | unary-nil | unary-both | req-count
	Carrier    string
	S          Script `json:",omitempty"` // resp-count
	NilKind    string `json:",omitempty"` // unary-nil: untyped | typed
	Enc        string `json:",omitempty"` // unary-nil over HTTP: proto | json (raw HTTP request)
	Silent     bool   `json:",omitempty"` // unary-nil over HTTP: the server uses an error renderer that writes nothing
	NReq       int    `json:",omitempty"` // req-count
	FirstEmpty bool   `json:",omitempty"` // req-count: the first request is the empty message (zero-length frame)
	Method     string `json:",omitempty"` // req-count: which single-request method
	Decorated  bool   `json:",omitempty"` // req-count: the service description went through grpchan.InterceptServer (pass-through interceptors) first
	// RawBody (req-count): the requests are posted as one hand-framed body of known length (Content-Length, as a
	// client that buffers its request does) instead of through the channel's pipe; LastEmpty: the last of them is the
	// empty message (four zero bytes on the wire)
	RawBody   bool `json:",omitempty"`
	LastEmpty bool `json:",omitempty"`
	// NilMsg (unary-nil, NilKind "status"): the handler returns no response and a status with this message
	NilMsg  string `json:",omitempty"`
	NilCode uint32 `json:",omitempty"`
}

func propC08(c c08Case) *Outcome {
	o := &Outcome{}
	o.class("mode=%s/carrier=%s", c.Mode, c.Carrier)
	switch c.Mode {
	case "resp-count":
		return c08RespCount(c, o)
	case "unary-nil":
		return c08UnaryNil(c, o)
	case "json-two":
		return c08JSONTwo(c, o)
	case "stream-nil":
		return c08StreamNil(c, o)
	case "unary-both":
		// a unary handler (or interceptor) returns a response value next to a non-nil error: the error is the outcome
		o.NonTrivial = true
		s := &c.S
		e := modelScript(s)
		obs := runScript(s, c.Carrier, carrierOpts{})
		o.Observed = obs
		if dev := statusDeviation(s, e, obs); dev != "" {
			if sig := c02Known(&c02Case{Carrier: c.Carrier, S: c.S}, e, obs, dev); sig != "" {
				return o
			}
			return o.failf("%s: unary handler returned a response together with its error: %s", c.Carrier, dev)
		}
		return o
	default:
		return c08ReqCount(c, o)
	}
}

func c08RespCount(c c08Case, o *Outcome) *Outcome {
	s := &c.S
	e := modelScript(s)
	n := 0
	for _, op := range s.HOps {
		if op.Op == "send" {
			n++
		}
	}
	o.class("responses=%d/final-ok=%v", min(n, 4), s.Final.isNil())
	o.NonTrivial = n != 1 || !s.Final.isNil()
	obs := runScript(s, c.Carrier, carrierOpts{})
	o.Observed = obs
	if len(obs.Panics) > 0 {
		return o.failf("panic: %s", obs.Panics[0])
	}
	if obs.Stalled != "" {
		return o.failf("stall: %s", obs.Stalled)
	}
	success := scriptSuccess(s, e, obs)
	if n == 1 && s.Final.isNil() {
		if !success {
			return o.failf("%s: exactly one response and OK status, but client reports %s", c.Carrier, obs.Final.Raw)
		}
		if string(obs.Recvs[0].Msg) != string(e.Msgs[0]) {
			return o.failf("%s: the single response is not the message the handler sent", c.Carrier)
		}
		return o
	}
	if success {
		return o.failf("%s: handler produced %d responses with final status %v, yet the client reports success carrying %s", c.Carrier, n, e.Code, pbFromDet(obs.Recvs[0].Msg))
	}
	for i, r := range obs.Recvs {
		if r.Err == "" {
			return o.failf("%s: handler produced %d responses (status %v); RecvMsg #%d handed one out with a nil error", c.Carrier, n, e.Code, i)
		}
	}
	if n <= 1 && !s.Final.isNil() {
		// an ordinary failure: the status must be the handler's
		if dev := statusDeviation(s, e, obs); dev != "" {
			if sig := c02Known(&c02Case{Carrier: c.Carrier, S: c.S}, e, obs, dev); sig != "" || kfHTTPTrailerNotUTF8(c.Carrier, s, e, obs) != "" {
				return o
			}
			return o.failf("%s: %s", c.Carrier, dev)
		}
	}
	return o
}

func c08UnaryNil(c c08Case, o *Outcome) *Outcome {
	o.class("nil=%s/enc=%s/silent-renderer=%v", c.NilKind, c.Enc, c.Silent)
	o.NonTrivial = true
	ran := 0
	var mu sync.Mutex
	svc := &Service{UnaryRaw: func(ctx context.Context, dec func(interface{}) error, _ grpc.UnaryServerInterceptor) (interface{}, error) {
		in := new(pb.Message)
		if err := dec(in); err != nil {
			return nil, err
		}
		mu.Lock()
		ran++
		mu.Unlock()
		if c.NilKind == "typed" {
			return (*pb.Message)(nil), nil
		}
		if c.NilKind == "status" && c.NilCode == 0 {
			// a failure whose own status claims OK (an application error type with a gap in its code table)
			return nil, okStatusErr{}
		}
		if c.NilKind == "status" {
			return nil, status.Error(codes.Code(c.NilCode), c.NilMsg)
		}
		return nil, nil
	}}
	copts := carrierOpts{}
	if c.Silent && isHTTP(c.Carrier) {
		copts.HOpts = []httpgrpc.HandlerOption{httpgrpc.ErrorRenderer(func(context.Context, *status.Status, http.ResponseWriter) {})}
	}
	if c.Enc == "json" {
		// raw HTTP request with the JSON content type against the handler
		car := newCarrier(c.Carrier, newServiceDesc(), svc, copts)
		defer car.Close()
		body, _ := protojson.Marshal(&pb.Message{Count: 3})
		req := httptest.NewRequest("POST", "http://verif.test"+mUnary, bytes.NewReader(body))
		req.Header.Set("Content-Type", httpgrpc.ApplicationJson)
		w := httptest.NewRecorder()
		panicked := ""
		func() {
			defer func() {
				if r := recover(); r != nil {
					panicked = fmt.Sprint(r)
				}
			}()
			car.HTTPHandler.ServeHTTP(w, req)
		}()
		res := w.Result()
		b, _ := io.ReadAll(res.Body)
		o.Observed = map[string]interface{}{"status": res.StatusCode, "x-grpc-status": res.Header.Get("X-Grpc-Status"), "body": string(b), "panic": panicked}
		if panicked != "" {
			// net/http would turn this into a dropped connection: an error for the caller, but
			// "no request makes the server panic" is C11's clause; here only success matters
			return o
		}
		if res.StatusCode >= 200 && res.StatusCode < 300 {
			gs := res.Header.Get("X-Grpc-Status")
			if gs == "" || gs[0] == '0' {
				return o.failf("%s/json: handler returned a nil response, reply is HTTP %d with body %q (success carrying a fabricated message)", c.Carrier, res.StatusCode, b)
			}
		}
		return o
	}
	car := newCarrier(c.Carrier, newServiceDesc(), svc, copts)
	defer car.Close()
	out := &pb.Message{Count: 99}
	var err error
	stall := guard("Invoke", func() { err = car.Conn.Invoke(context.Background(), mUnary, &pb.Message{Count: 3}, out) })
	if stall != "" {
		return o.failf("stall: %s", stall)
	}
	o.Observed = observeErr(err)
	if err == nil && c.NilKind == "status" {
		return o.failf("%s (error renderer writes nothing: %v): unary handler returned no response and status %d %q; client reports success with %v", c.Carrier, c.Silent, c.NilCode, c.NilMsg, out)
	}
	if err == nil {
		return o.failf("%s: unary handler returned a nil (%s) response and nil error; client reports success with %v", c.Carrier, c.NilKind, out)
	}
	if c.NilKind == "status" && c.NilCode == 0 {
		return o // the handler's own error claims OK: any failure will do (as in C02)
	}
	if st, ok := status.FromError(err); !ok || st.Code() == codes.OK {
		return o.failf("%s: nil response reported as %T %v, not a non-OK status", c.Carrier, err, err)
	}
	return o
}

// c08JSONTwo: a unary method called with the JSON content type and a body of two JSON documents - two request messages
// to a method that takes one: rejected, the handler does not run.
func c08JSONTwo(c c08Case, o *Outcome) *Outcome {
	o.NonTrivial = true
	o.class("json-body-with-%d-documents", c.NReq)
	runs := 0
	var mu sync.Mutex
	svc := &Service{Unary: func(ctx context.Context, req *pb.Message) (*pb.Message, error) {
		mu.Lock()
		runs++
		mu.Unlock()
		return &pb.Message{Count: req.Count}, nil
	}}
	car := newCarrier(c.Carrier, newServiceDesc(), svc, carrierOpts{})
	defer car.Close()
	var docs []string
	for i := 0; i < c.NReq; i++ {
		b, _ := protojson.Marshal(&pb.Message{Count: int32(i + 1), Payload: []byte("doc")})
		docs = append(docs, string(b))
	}
	body := strings.Join(docs, c.NilMsg) // NilMsg: what stands between two documents
	req := httptest.NewRequest("POST", "http://verif.test"+mUnary, strings.NewReader(body))
	req.Header.Set("Content-Type", httpgrpc.ApplicationJson)
	w := httptest.NewRecorder()
	panicked := ""
	func() {
		defer func() {
			if r := recover(); r != nil {
				panicked = fmt.Sprint(r)
			}
		}()
		car.HTTPHandler.ServeHTTP(w, req)
	}()
	res := w.Result()
	gs := res.Header.Get("X-Grpc-Status")
	mu.Lock()
	defer mu.Unlock()
	o.Observed = map[string]interface{}{"body": body, "status": res.StatusCode, "x-grpc-status": gs, "handler_runs": runs, "panic": panicked}
	ok := res.StatusCode >= 200 && res.StatusCode < 300 && (gs == "" || gs[0] == '0')
	if c.NReq == 1 {
		if runs != 1 || !ok {
			return o.failf("%s: one JSON document: handler ran %d times, HTTP %d, X-GRPC-Status %q", c.Carrier, runs, res.StatusCode, gs)
		}
		return o
	}
	if runs != 0 {
		return o.failf("%s: a JSON request body of %d documents (two request messages) to a unary method: the handler ran (HTTP %d)", c.Carrier, c.NReq, res.StatusCode)
	}
	if ok && panicked == "" {
		return o.failf("%s: a JSON request body of %d documents to a unary method was answered with success", c.Carrier, c.NReq)
	}
	return o
}

// c08StreamNil: a client-streaming handler hands a nil message pointer to its one send (a summary that was never
// built): that is no response - the caller gets an error, not an empty message.
func c08StreamNil(c c08Case, o *Outcome) *Outcome {
	o.NonTrivial = true
	o.class("single-response-handler-sends-a-nil-message")
	svc := &Service{Stream: func(kind string, stream grpc.ServerStream) error {
		for stream.RecvMsg(new(pb.Message)) == nil {
		}
		var summary *pb.Message
		return stream.SendMsg(summary)
	}}
	car := newCarrier(c.Carrier, newServiceDesc(), svc, carrierOpts{})
	defer car.Close()
	out := &pb.Message{Count: 99}
	var err error
	stall := guard("call", func() {
		ctx, cancel := context.WithCancel(context.Background())
		defer cancel()
		var cs grpc.ClientStream
		cs, err = car.Conn.NewStream(ctx, streamDescOf(kClientStream), mClientStream)
		if err != nil {
			return
		}
		cs.SendMsg(&pb.Message{Count: 1})
		cs.CloseSend()
		err = cs.RecvMsg(out)
	})
	if stall != "" {
		return o.failf("stall: %s", stall)
	}
	o.Observed = observeErr(err)
	if err == nil {
		return o.failf("%s: client-streaming handler passed a nil message to its send; the caller reports success with %v", c.Carrier, out)
	}
	return o
}

func c08ReqCount(c c08Case, o *Outcome) *Outcome {
	o.class("requests=%d/method=%s/first-empty=%v", c.NReq, c.Method, c.FirstEmpty)
	o.NonTrivial = c.NReq != 1
	var mu sync.Mutex
	var recvErrs []error
	got := 0
	svc := &Service{Stream: func(kind string, stream grpc.ServerStream) error {
		// what generated code does for a single-request method: one RecvMsg
		m := new(pb.Message)
		err := stream.RecvMsg(m)
		mu.Lock()
		recvErrs = append(recvErrs, err)
		if err == nil {
			got++
		}
		mu.Unlock()
		if err != nil {
			return err
		}
		return stream.SendMsg(&pb.Message{Count: 1})
	}}
	desc := newServiceDesc()
	if c.Decorated {
		o.class("decorated-description")
		desc = grpchan.InterceptServer(desc,
			func(ctx context.Context, req interface{}, _ *grpc.UnaryServerInfo, h grpc.UnaryHandler) (interface{}, error) {
				return h(ctx, req)
			},
			func(srv interface{}, ss grpc.ServerStream, _ *grpc.StreamServerInfo, h grpc.StreamHandler) error {
				return h(srv, ss)
			})
	}
	car := newCarrier(c.Carrier, desc, svc, carrierOpts{})
	defer car.Close()
	ctx, cancel := context.WithCancel(context.Background())
	defer cancel()
	if c.RawBody {
		o.class("raw-body-with-content-length/last-empty=%v", c.LastEmpty)
		var msgs []proto.Message
		for i := 0; i < c.NReq; i++ {
			m := &pb.Message{Count: int32(i + 1)}
			if (i == 0 && c.FirstEmpty) || (i == c.NReq-1 && i > 0 && c.LastEmpty) {
				m = &pb.Message{}
			}
			msgs = append(msgs, m)
		}
		body := encodeStream(msgs, nil)
		var code int32 = -1
		var httpStatus int
		var rerr error
		stall := guard("raw request", func() {
			req, _ := http.NewRequest("POST", strings.TrimSuffix(car.BaseURL.String(), "/")+mServerStream, bytes.NewReader(body))
			req.Header.Set("Content-Type", httpgrpc.StreamRpcContentType_V1)
			resp, err := car.Transport.RoundTrip(req)
			if err != nil {
				rerr = err
				return
			}
			defer resp.Body.Close()
			httpStatus = resp.StatusCode
			b, _ := io.ReadAll(resp.Body)
			if d := refDecode(b); d.TrailerOK {
				code = d.TrailerMsg.Code
			}
		})
		if stall != "" {
			return o.failf("stall: %s", stall)
		}
		mu.Lock()
		defer mu.Unlock()
		o.Observed = map[string]interface{}{"handler_recv_errs": fmt.Sprint(recvErrs), "http": httpStatus, "trailer_code": code, "err": errStr(rerr)}
		if c.NReq >= 2 {
			if len(recvErrs) > 0 && (recvErrs[0] == nil || recvErrs[0] == io.EOF) {
				return o.failf("%s: %d request messages in one body of %d bytes (Content-Length) to a single-request method; handler RecvMsg returned %v instead of rejecting", c.Carrier, c.NReq, len(body), recvErrs[0])
			}
			if rerr == nil && httpStatus == 200 && code == 0 {
				return o.failf("%s: %d request messages in one body (Content-Length) to a single-request method; the call ended OK", c.Carrier, c.NReq)
			}
		}
		if c.NReq == 1 && (len(recvErrs) != 1 || recvErrs[0] != nil || code != 0) {
			return o.failf("%s: one request message in a body with Content-Length: handler RecvMsg %v, trailer code %d, http %d, %v", c.Carrier, recvErrs, code, httpStatus, rerr)
		}
		return o
	}
	var final error
	stall := guard("client", func() {
		// the client misuses the method: it streams NReq requests to a single-request method
		cs, err := car.Conn.NewStream(ctx, &grpc.StreamDesc{StreamName: "ServerStream", ClientStreams: true, ServerStreams: true}, mServerStream)
		if err != nil {
			final = err
			return
		}
		for i := 0; i < c.NReq; i++ {
			m := &pb.Message{Count: int32(i + 1)}
			if i == 0 && c.FirstEmpty {
				m = &pb.Message{}
			}
			if err := cs.SendMsg(m); err != nil {
				break
			}
		}
		cs.CloseSend()
		for i := 0; i < 4; i++ {
			if final = cs.RecvMsg(new(pb.Message)); final != nil {
				break
			}
		}
	})
	if stall != "" {
		return o.failf("stall: %s", stall)
	}
	mu.Lock()
	defer mu.Unlock()
	o.Observed = map[string]interface{}{"handler_recv_errs": fmt.Sprint(recvErrs), "client_final": errStr(final)}
	if len(recvErrs) != 1 {
		return o.failf("handler ran %d times", len(recvErrs))
	}
	switch {
	case c.NReq == 1:
		if recvErrs[0] != nil {
			return o.failf("%s: one request sent, handler RecvMsg failed: %v", c.Carrier, recvErrs[0])
		}
		if final != io.EOF {
			return o.failf("%s: one request sent, call ended with %v", c.Carrier, final)
		}
	case c.NReq >= 2:
		if recvErrs[0] == nil || recvErrs[0] == io.EOF {
			return o.failf("%s: client sent %d requests to a single-request method; handler RecvMsg returned %v instead of rejecting", c.Carrier, c.NReq, recvErrs[0])
		}
		if final == nil || final == io.EOF {
			return o.failf("%s: client sent %d requests to a single-request method; call ended with %v", c.Carrier, c.NReq, final)
		}
	default:
		if recvErrs[0] == nil {
			return o.failf("%s: no request sent, yet handler RecvMsg succeeded", c.Carrier)
		}
	}
	return o
}

func genC08(t *rapid.T) c08Case {
	if rapid.IntRange(0, 19).Draw(t, "jsontwo") == 0 {
		return c08Case{Mode: "json-two", Carrier: rapid.SampledFrom([]string{cHTTP, cHTTPMux, cHTTPPer}).Draw(t, "jcarrier"), NReq: rapid.SampledFrom([]int{1, 2, 2, 3}).Draw(t, "jdocs"),
			NilMsg: rapid.SampledFrom([]string{"", "\n", " ", "\r\n\t"}).Draw(t, "jsep")}
	}
	if rapid.IntRange(0, 29).Draw(t, "streamnil") == 0 {
		return c08Case{Mode: "stream-nil", Carrier: rapid.SampledFrom(sutCarriers).Draw(t, "sncarrier")}
	}
	switch rapid.IntRange(0, 9).Draw(t, "mode") {
	case 0:
		c := c08Case{Mode: "unary-nil", Carrier: rapid.SampledFrom(sutCarriers).Draw(t, "carrier"), NilKind: rapid.SampledFrom([]string{"untyped", "typed"}).Draw(t, "nilkind"), Enc: "proto"}
		if isHTTP(c.Carrier) && rapid.Bool().Draw(t, "json") {
			c.Enc = "json"
		}
		c.Silent = isHTTP(c.Carrier) && rapid.Bool().Draw(t, "silent")
		if c.Enc == "proto" && rapid.Bool().Draw(t, "nilstatus") {
			// no response because the handler failed: whatever its message looks like, never success
			c.NilKind = "status"
			c.NilCode = rapid.Uint32Range(0, 16).Draw(t, "nilcode") // 0: an error whose GRPCStatus() says OK
			c.NilMsg = rapid.SampledFrom([]string{"failed", "lookup failed: connection refused", "a:b:c", "trail:", ":lead", "x: 5", "0:OK", "12", "0", ""}).Draw(t, "nilmsg")
		}
		return c
	case 1:
		return c08Case{Mode: "req-count", Carrier: rapid.SampledFrom([]string{cHTTP, cHTTPMux, cHTTPPer}).Draw(t, "carrier"), NReq: rapid.IntRange(0, 4).Draw(t, "nreq"), Method: "ServerStream", FirstEmpty: rapid.Bool().Draw(t, "firstempty"), Decorated: rapid.IntRange(0, 2).Draw(t, "decorated") == 0,
			RawBody: rapid.Bool().Draw(t, "rawbody"), LastEmpty: rapid.Bool().Draw(t, "lastempty")}
	}
	if rapid.IntRange(0, 9).Draw(t, "unaryboth") == 0 {
		return c08Case{Mode: "unary-both", Carrier: rapid.SampledFrom(sutCarriers).Draw(t, "carrier"),
			S: Script{Kind: kUnary, Reqs: []MsgSpec{{Raw: []byte("q")}}, Resps: []MsgSpec{genMsg(t, "partial", 300)}, RecvN: -1, HeaderAt: -1, RespWithErr: true,
				Final: ErrSpec{Kind: "status", Code: rapid.Uint32Range(1, 16).Draw(t, "bothcode"), Msg: []byte("failed")}}}
	}
	c := c08Case{Mode: "resp-count", Carrier: rapid.SampledFrom(sutCarriers).Draw(t, "carrier")}
	c.S = genScript(t, scriptGenOpts{MaxMsg: 300, MDKeys: 1, Cardinality: true, NoEarly: true, OnlyKinds: []string{kClientStream}, PlainStatus: true})
	// make the response count itself a drawn quantity, 0..8
	n := rapid.SampledFrom([]int{0, 0, 1, 1, 2, 2, 3, 5, 8}).Draw(t, "nresponses")
	var ops []HOp
	have := 0
	for _, op := range c.S.HOps {
		if op.Op == "send" {
			if have >= n {
				continue
			}
			have++
		}
		ops = append(ops, op)
	}
	for ; have < n; have++ {
		ops = append(ops, HOp{Op: "send", Msg: rapid.IntRange(0, len(c.S.Resps)-1).Draw(t, "extra")})
	}
	c.S.HOps = ops
	if isHTTP(c.Carrier) {
		// trailer values that are not valid UTF-8 cannot cross httpgrpc streams (open finding of
		// C02/C03, not the subject of C08): keep them out by construction
		for i := range c.S.HOps {
			if c.S.HOps[i].Op != "settlr" {
				continue
			}
			var keep MDSpec
			for _, p := range c.S.HOps[i].MD {
				if utf8.Valid(p.V) {
					keep = append(keep, p)
				}
			}
			c.S.HOps[i].MD = keep
		}
	}
	return c
}

func init() { registerReplay("C08", propC08) }

var _ = http.StatusOK

const c08Rule = "rapid-generated: (resp-count) client-streaming calls whose raw handler emits n in 0..8 responses with nil or non-nil final status, with/without headers and trailers, on inproc/httpgrpc.Server/HandleServices; " +
	"(unary-nil) unary handlers returning an untyped or typed nil response, protobuf via the real client and JSON via a raw HTTP request; (req-count) clients streaming 0..4 requests to a single-request method over HTTP; " +
	"oracle: n=1 and OK => success with exactly that message, otherwise never success and no message handed out with nil error; nil response => non-OK status; >=2 requests => handler RecvMsg and the call fail; " +
	"also generated since the seeded rounds: unary handlers returning a response next to a non-nil error (unary-both), the per-method HTTP server form, empty first/surplus messages, wrapped errors, a renderer that writes nothing, descriptions decorated by grpchan.InterceptServer before registration; " +
	"non-trivial = n != 1, non-nil status, nil response, or request count != 1; distinct by case hash"

func TestC08(t *testing.T) {
	runProp(t, "C08", c08Rule, genC08, propC08)
}
