package harness

// Fault-injecting net.Conn wrappers (client side of the HTTP carriers).

import (
	"errors"
	"io"
	"net"
	"sync"
)

// countConn counts the bytes the client reads from the connection.
type countConn struct {
	net.Conn
	mu sync.Mutex
	n  *int
}

func (c *countConn) Read(p []byte) (int, error) {
	n, err := c.Conn.Read(p)
	c.mu.Lock()
	*c.n += n
	c.mu.Unlock()
	return n, err
}

// cutConn delivers only the first `remaining` bytes of what the server sends, then ends the
// stream either cleanly (io.EOF, as a closed connection does) or abruptly (a reset error).
type cutConn struct {
	net.Conn
	mu        sync.Mutex
	remaining int
	abrupt    bool
	cut       bool
	// afterReply: the cut happens only once more of the reply is on its way (one further read is awaited and thrown
	// away), so with remaining == 0 the server has certainly processed the request: a reply lost, not a request lost
	afterReply bool
}

var errConnReset = errors.New("read: connection reset by peer (injected)")

func (c *cutConn) Read(p []byte) (int, error) {
	c.mu.Lock()
	rem := c.remaining
	c.mu.Unlock()
	if rem <= 0 {
		c.mu.Lock()
		first := !c.cut
		c.cut = true
		c.mu.Unlock()
		if first && c.afterReply {
			c.Conn.Read(make([]byte, 1))
		}
		if first {
			go c.Conn.Close()
		}
		if c.abrupt {
			return 0, errConnReset
		}
		return 0, io.EOF
	}
	if len(p) > rem {
		p = p[:rem]
	}
	n, err := c.Conn.Read(p)
	c.mu.Lock()
	c.remaining -= n
	c.mu.Unlock()
	return n, err
}
