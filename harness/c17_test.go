package harness

// C17 — client interceptors see every call once and wrap transparently.

import (
	"context"
	"fmt"
	"io"
	"sync"
	"sync/atomic"
	"testing"

	"google.golang.org/grpc"
	"google.golang.org/grpc/codes"
	"google.golang.org/grpc/metadata"
	"google.golang.org/grpc/status"
	"pgregory.net/rapid"

	"github.com/fullstorydev/grpchan"
	pb "github.com/fullstorydev/grpchan/grpchantesting"
)

type c17Layer struct {
	Unary  string // "" (nil) | pass | sc-err | sc-ok | add-opt | rw-method
	Stream string // "" (nil) | pass | sc-err | add-opt | rw-method
}

type c17Case struct {
	Base   string // fake | inproc | http | grpc
	Layers []c17Layer
	Stream bool
	NOpts  int // call options supplied by the caller
	// DoneCtx (fake base only): the caller's context is already cancelled; the layers run all the same (what
	// to do with a finished context is the interceptors' and the transport's decision, not the wrapper's)
	DoneCtx bool `json:",omitempty"`
	// Sibling: after the chain is built, the channel below its top layer is wrapped once more with another
	// interceptor (two wrappers sharing the stack beneath them); calls through the first are none of its business
	Sibling bool `json:",omitempty"`
	// Switch (non-empty = switch mode): the layers sit on a user-defined WrappedClientConn whose target is
	// changed between calls (lazy dial, fail-over); each entry names the target of one call: "inproc" | "grpc".
	// Interceptors are handed the *grpc.ClientConn underlying the call being made, nil if there is none.
	Switch []string `json:",omitempty"`
	// SwitchInner: in switch mode, how many pass-through grpchan layers sit *below* the user-defined wrapper
	// (between it and the connection)
	SwitchInner int `json:",omitempty"`
	// SwitchOneKind: in switch mode the even layers (L0, the one directly on the user-defined wrapper, included)
	// have an interceptor only for the kind of call that is *not* being made, so they hand the call straight to
	// the channel they wrap; the user-defined wrapper counts the calls that come through it
	SwitchOneKind bool `json:",omitempty"`
	// ViaOld: every other layer is made with grpchan.InterceptChannel, the older name of InterceptClientConn
	ViaOld bool `json:",omitempty"`
	// Follow: a second, identical call through the same wrapper, made with the context that the innermost
	// interceptor of the first call was handed (a follow-up or auxiliary RPC issued by code that runs inside the
	// first call, or with a stream's context): it is a call like any other and every layer sees it once
	Follow bool `json:",omitempty"`
	// DescFlags (stream calls on the fake base): the caller's StreamDesc says client-streaming (bit 0) and/or
	// server-streaming (bit 1), or neither (a unary RPC issued through the streaming API); -1 = bidi as usual.
	// Whatever it says, it is a stream creation and goes through every stream interceptor.
	DescFlags int `json:",omitempty"`
	// OtherFirst: before the judged call, a call of the other kind (unary before a stream, a stream before a unary
	// call) goes through the same wrapper: what a layer did for one kind of call decides nothing about the other
	OtherFirst bool `json:",omitempty"`
	// ByValue (fake base): the base channel is a struct used by value that has a func field (not comparable, not
	// hashable), as user-defined channels may be
	ByValue bool `json:",omitempty"`
}

// c17Same: identity of two channels (interface values of non-comparable dynamic types cannot be compared with ==).
func c17Same(a, b grpc.ClientConnInterface) bool {
	av, ok1 := a.(c17FakeVal)
	bv, ok2 := b.(c17FakeVal)
	if ok1 || ok2 {
		return ok1 && ok2 && av.inner == bv.inner
	}
	return a == b
}

// c17FakeVal is c17Fake as a by-value, non-comparable type.
type c17FakeVal struct {
	inner *c17Fake
	hook  func()
}

func (f c17FakeVal) Invoke(ctx context.Context, method string, req, resp interface{}, opts ...grpc.CallOption) error {
	return f.inner.Invoke(ctx, method, req, resp, opts...)
}
func (f c17FakeVal) NewStream(ctx context.Context, desc *grpc.StreamDesc, method string, opts ...grpc.CallOption) (grpc.ClientStream, error) {
	return f.inner.NewStream(ctx, desc, method, opts...)
}

func c17Desc(c *c17Case) *grpc.StreamDesc {
	if c.Base != "fake" || c.DescFlags < 0 {
		return streamDescOf(kBidi)
	}
	return &grpc.StreamDesc{StreamName: "Bidi", ClientStreams: c.DescFlags&1 != 0, ServerStreams: c.DescFlags&2 != 0}
}

type c17SwitchConn struct {
	mu    sync.Mutex
	cur   grpc.ClientConnInterface
	calls int // calls made through the wrapper itself (not through whatever Unwrap returned)
}

func (s *c17SwitchConn) count() grpc.ClientConnInterface {
	s.mu.Lock()
	defer s.mu.Unlock()
	s.calls++
	return s.cur
}

func (s *c17SwitchConn) get() grpc.ClientConnInterface {
	s.mu.Lock()
	defer s.mu.Unlock()
	return s.cur
}
func (s *c17SwitchConn) Unwrap() grpc.ClientConnInterface { return s.get() }
func (s *c17SwitchConn) Invoke(ctx context.Context, method string, req, resp interface{}, opts ...grpc.CallOption) error {
	return s.count().Invoke(ctx, method, req, resp, opts...)
}
func (s *c17SwitchConn) NewStream(ctx context.Context, desc *grpc.StreamDesc, method string, opts ...grpc.CallOption) (grpc.ClientStream, error) {
	return s.count().NewStream(ctx, desc, method, opts...)
}

func c17Switch(c c17Case) *Outcome {
	o := &Outcome{NonTrivial: true}
	o.class("switching-wrapped-conn/depth=%d/stream=%v", len(c.Layers), c.Stream)
	svc := &Service{
		Unary: func(ctx context.Context, req *pb.Message) (*pb.Message, error) { return &pb.Message{Count: 77}, nil },
		Stream: func(kind string, stream grpc.ServerStream) error {
			for stream.RecvMsg(new(pb.Message)) == nil {
			}
			return nil
		},
	}
	inp := newCarrier(cInproc, newServiceDesc(), svc, carrierOpts{})
	defer inp.Close()
	grp := newCarrier(cGRPC, newServiceDesc(), svc, carrierOpts{})
	defer grp.Close()
	realCC, _ := grp.Conn.(*grpc.ClientConn)
	passU := func(ctx context.Context, method string, req, reply interface{}, cc *grpc.ClientConn, invoker grpc.UnaryInvoker, opts ...grpc.CallOption) error {
		return invoker(ctx, method, req, reply, cc, opts...)
	}
	passS := func(ctx context.Context, desc *grpc.StreamDesc, cc *grpc.ClientConn, method string, streamer grpc.Streamer, opts ...grpc.CallOption) (grpc.ClientStream, error) {
		return streamer(ctx, desc, cc, method, opts...)
	}
	inner := func(base grpc.ClientConnInterface) grpc.ClientConnInterface {
		for i := 0; i < c.SwitchInner; i++ {
			base = grpchan.InterceptClientConn(base, passU, passS)
		}
		return base
	}
	inpConn, grpConn := inner(inp.Conn), inner(grp.Conn)
	sw := &c17SwitchConn{cur: inpConn}
	var mu sync.Mutex
	var seen []string
	var ch grpc.ClientConnInterface = sw
	n := len(c.Layers)
	if n == 0 {
		n = 1
	}
	for i := 0; i < n; i++ {
		id := fmt.Sprintf("L%d", i)
		var ui grpc.UnaryClientInterceptor = func(ctx context.Context, method string, req, reply interface{}, cc *grpc.ClientConn, invoker grpc.UnaryInvoker, opts ...grpc.CallOption) error {
			mu.Lock()
			seen = append(seen, id+"="+ccLabel(cc, realCC))
			mu.Unlock()
			return invoker(ctx, method, req, reply, cc, opts...)
		}
		var si grpc.StreamClientInterceptor = func(ctx context.Context, desc *grpc.StreamDesc, cc *grpc.ClientConn, method string, streamer grpc.Streamer, opts ...grpc.CallOption) (grpc.ClientStream, error) {
			mu.Lock()
			seen = append(seen, id+"="+ccLabel(cc, realCC))
			mu.Unlock()
			return streamer(ctx, desc, cc, method, opts...)
		}
		if c.SwitchOneKind && i%2 == 0 {
			// only the other kind's interceptor: this layer has nothing to do for the call being made
			if c.Stream {
				si = nil
			} else {
				ui = nil
			}
		}
		ch = grpchan.InterceptClientConn(ch, ui, si)
	}
	if c.SwitchOneKind {
		o.class("switching-wrapped-conn/one-kind-layers")
	}
	for k, target := range c.Switch {
		sw.mu.Lock()
		want := "nil"
		if target == "grpc" {
			sw.cur, want = grpConn, "real"
		} else {
			sw.cur = inpConn
		}
		sw.mu.Unlock()
		mu.Lock()
		seen = nil
		mu.Unlock()
		sw.mu.Lock()
		sw.calls = 0
		sw.mu.Unlock()
		var err error
		stall := guard("call", func() {
			ctx, cancel := context.WithCancel(context.Background())
			defer cancel()
			if c.Stream {
				var cs grpc.ClientStream
				cs, err = ch.NewStream(ctx, streamDescOf(kBidi), mBidi)
				if err == nil {
					cs.CloseSend()
					if err = cs.RecvMsg(new(pb.Message)); err == io.EOF {
						err = nil
					}
				}
				return
			}
			err = ch.Invoke(ctx, mUnary, &pb.Message{Count: 5}, new(pb.Message))
		})
		if stall != "" {
			return o.failf("switch mode: %s", stall)
		}
		if err != nil {
			return o.failf("switch mode: call %d over %s failed: %v", k+1, target, err)
		}
		mu.Lock()
		got := append([]string{}, seen...)
		mu.Unlock()
		var wantLog []string
		for i := n - 1; i >= 0; i-- {
			if c.SwitchOneKind && i%2 == 0 {
				continue
			}
			wantLog = append(wantLog, fmt.Sprintf("L%d=%s", i, want))
		}
		sw.mu.Lock()
		through := sw.calls
		sw.mu.Unlock()
		if through != 1 {
			return o.failf("switch mode: call %d of %v: the user-defined channel the layers wrap saw %d calls, expected exactly 1 (layers without an interceptor for this kind of call go straight to the channel they wrap)", k+1, c.Switch, through)
		}
		if !sameStrings(got, wantLog) {
			return o.failf("switch mode: call %d of %v goes over %s: interceptors were handed %v, expected %v (the conn underlying this call)", k+1, c.Switch, target, got, wantLog)
		}
	}
	return o
}

type c17Rec struct {
	mu     sync.Mutex
	ev     []string
	base   []string
	stream grpc.ClientStream
}

func (r *c17Rec) add(format string, a ...interface{}) {
	r.mu.Lock()
	r.ev = append(r.ev, fmt.Sprintf(format, a...))
	r.mu.Unlock()
}

// fake base channel
type c17Fake struct{ rec *c17Rec }

type c17FakeStream struct{ grpc.ClientStream }

func (f *c17Fake) Invoke(ctx context.Context, method string, req, resp interface{}, opts ...grpc.CallOption) error {
	f.rec.mu.Lock()
	f.rec.base = append(f.rec.base, fmt.Sprintf("invoke:%s:%d:%d", method, len(opts), req.(*pb.Message).Count))
	f.rec.mu.Unlock()
	resp.(*pb.Message).Count = 77
	return nil
}

func (f *c17Fake) NewStream(ctx context.Context, desc *grpc.StreamDesc, method string, opts ...grpc.CallOption) (grpc.ClientStream, error) {
	f.rec.mu.Lock()
	defer f.rec.mu.Unlock()
	f.rec.base = append(f.rec.base, fmt.Sprintf("stream:%s:%d:%v:%v", method, len(opts), desc.ClientStreams, desc.ServerStreams))
	f.rec.stream = &c17FakeStream{}
	return f.rec.stream, nil
}

func ccLabel(cc *grpc.ClientConn, real *grpc.ClientConn) string {
	switch {
	case cc == nil:
		return "nil"
	case cc == real:
		return "real"
	}
	return "other"
}

func propC17(c c17Case) *Outcome {
	if len(c.Switch) > 0 {
		return c17Switch(c)
	}
	return propC17Chain(c)
}

func propC17Chain(c c17Case) *Outcome {
	o := &Outcome{}
	o.class("base=%s/depth=%d/stream=%v", c.Base, len(c.Layers), c.Stream)
	o.NonTrivial = len(c.Layers) >= 2
	rec := &c17Rec{}
	var base grpc.ClientConnInterface
	var realCC *grpc.ClientConn
	var hMu sync.Mutex
	var hSeen []string
	svc := &Service{
		Unary: func(ctx context.Context, req *pb.Message) (*pb.Message, error) {
			hMu.Lock()
			hSeen = append(hSeen, fmt.Sprintf("unary:%d", req.Count))
			hMu.Unlock()
			return &pb.Message{Count: 77}, nil
		},
		Stream: func(kind string, stream grpc.ServerStream) error {
			hMu.Lock()
			hSeen = append(hSeen, "stream:"+kind)
			hMu.Unlock()
			for stream.RecvMsg(new(pb.Message)) == nil {
			}
			return nil
		},
	}
	switch c.Base {
	case "fake":
		base = &c17Fake{rec: rec}
		if c.ByValue {
			o.class("base-channel-is-a-non-comparable-value")
			base = c17FakeVal{inner: &c17Fake{rec: rec}, hook: func() {}}
		}
	default:
		name := map[string]string{"inproc": cInproc, "http": cHTTP, "grpc": cGRPC}[c.Base]
		car := newCarrier(name, newServiceDesc(), svc, carrierOpts{})
		defer car.Close()
		base = car.Conn
		realCC, _ = car.Conn.(*grpc.ClientConn)
	}
	var sink metadata.MD
	var seenCtx atomic.Pointer[context.Context] // the context most recently handed to an interceptor
	mkUnary := func(id, beh string) grpc.UnaryClientInterceptor {
		if beh == "" {
			return nil
		}
		return func(ctx context.Context, method string, req, reply interface{}, cc *grpc.ClientConn, invoker grpc.UnaryInvoker, opts ...grpc.CallOption) error {
			rec.add("u:%s:%s:%d:cc=%s", id, method, len(opts), ccLabel(cc, realCC))
			seenCtx.Store(&ctx)
			switch beh {
			case "sc-err":
				return status.Error(codes.FailedPrecondition, "stopped by "+id)
			case "sc-ctxerr":
				return context.Canceled // e.g. a gate interceptor whose caller gave up: results pass through unchanged
			case "sc-ok":
				reply.(*pb.Message).Count = 1000
				return nil
			case "add-opt":
				opts = append(opts, grpc.Header(&sink))
			case "drop-opts":
				opts = nil
			case "rw-method":
				method = method + "~" + id
			case "twice":
				invoker(ctx, method, req, new(pb.Message), cc, opts...)
			case "rw-req":
				req = &pb.Message{Count: req.(*pb.Message).Count + 100}
			}
			return invoker(ctx, method, req, reply, cc, opts...)
		}
	}
	mkStream := func(id, beh string) grpc.StreamClientInterceptor {
		if beh == "" {
			return nil
		}
		return func(ctx context.Context, desc *grpc.StreamDesc, cc *grpc.ClientConn, method string, streamer grpc.Streamer, opts ...grpc.CallOption) (grpc.ClientStream, error) {
			rec.add("s:%s:%s:%d:cc=%s", id, method, len(opts), ccLabel(cc, realCC))
			seenCtx.Store(&ctx)
			switch beh {
			case "sc-err":
				return nil, status.Error(codes.FailedPrecondition, "stopped by "+id)
			case "sc-ctxerr":
				return nil, context.Canceled
			case "add-opt":
				opts = append(opts, grpc.Header(&sink))
			case "drop-opts":
				opts = nil
			case "rw-method":
				method = method + "~" + id
			}
			return streamer(ctx, desc, cc, method, opts...)
		}
	}
	ch := base
	var lastPrev grpc.ClientConnInterface
	for i, l := range c.Layers {
		id := fmt.Sprintf("L%d", i)
		prev := ch
		if c.ViaOld && i%2 == 1 {
			// the older name of the same constructor
			ch = grpchan.InterceptChannel(prev, mkUnary(id, l.Unary), mkStream(id, l.Stream))
		} else {
			ch = grpchan.InterceptClientConn(prev, mkUnary(id, l.Unary), mkStream(id, l.Stream))
		}
		if l.Unary == "" && l.Stream == "" {
			if !c17Same(ch, prev) {
				return o.failf("InterceptClientConn(ch, nil, nil) returned a different channel")
			}
			continue
		}
		lastPrev = prev
		w, ok := ch.(grpchan.WrappedClientConn)
		if !ok {
			return o.failf("wrapped channel does not implement WrappedClientConn")
		}
		if !c17Same(w.Unwrap(), prev) {
			return o.failf("Unwrap() does not return the wrapped channel at layer %d", i)
		}
	}
	if c.Sibling && lastPrev != nil {
		o.class("sibling-wrapper")
		grpchan.InterceptClientConn(lastPrev, mkUnary("SIBLING", "sc-err"), mkStream("SIBLING", "sc-err"))
	}
	// model
	ccWant := "nil"
	if realCC != nil {
		ccWant = "real"
	}
	method := mUnary
	if c.Stream {
		method = mBidi
	}
	var wantLog, wantBase []string
	baseHits := 0
	type c17Res struct {
		code  codes.Code
		count int32
		bare  bool // the interceptor's own bare context.Canceled must come back as is
	}
	finalMethod := method
	var hitCounts []int32
	var walk func(i int, method string, nopts int, cnt int32) c17Res
	walk = func(i int, method string, nopts int, cnt int32) c17Res {
		if i < 0 {
			baseHits++
			finalMethod = method
			if c.Stream {
				d := c17Desc(&c)
				wantBase = append(wantBase, fmt.Sprintf("stream:%s:%d:%v:%v", method, nopts, d.ClientStreams, d.ServerStreams))
			} else {
				wantBase = append(wantBase, fmt.Sprintf("invoke:%s:%d:%d", method, nopts, cnt))
			}
			hitCounts = append(hitCounts, cnt)
			return c17Res{code: codes.OK, count: 77}
		}
		beh := c.Layers[i].Unary
		tag := "u"
		if c.Stream {
			beh, tag = c.Layers[i].Stream, "s"
		}
		if beh == "" {
			return walk(i-1, method, nopts, cnt)
		}
		id := fmt.Sprintf("L%d", i)
		wantLog = append(wantLog, fmt.Sprintf("%s:%s:%s:%d:cc=%s", tag, id, method, nopts, ccWant))
		switch beh {
		case "sc-err":
			return c17Res{code: codes.FailedPrecondition}
		case "sc-ctxerr":
			return c17Res{code: codes.Unknown, bare: true}
		case "sc-ok":
			return c17Res{code: codes.OK, count: 1000}
		case "add-opt":
			nopts++
		case "drop-opts":
			nopts = 0
		case "rw-method":
			method = method + "~" + id
		case "twice":
			// e.g. retry, or re-authenticate and repeat: the invoker is used twice, each use is a full call
			walk(i-1, method, nopts, cnt)
		case "rw-req":
			// the interceptor hands on a request of its own (stamped, redacted) and leaves the caller's alone
			cnt += 100
		}
		return walk(i-1, method, nopts, cnt)
	}
	res := walk(len(c.Layers)-1, method, c.NOpts, 5)
	calls := 1
	if c.Follow {
		o.class("follow-up-call-with-inner-context")
		calls = 2
		walk(len(c.Layers)-1, method, c.NOpts, 5)
	}
	method = finalMethod
	reachesBase := baseHits > 0
	wantBare, wantCode, wantCount := res.bare, res.code, res.count
	var hdrs []metadata.MD
	var opts []grpc.CallOption
	for i := 0; i < c.NOpts; i++ {
		hdrs = append(hdrs, nil)
		opts = append(opts, grpc.Header(&hdrs[len(hdrs)-1]))
	}
	var err error
	var out pb.Message
	var gotStream grpc.ClientStream
	if c.OtherFirst {
		o.class("a-call-of-the-other-kind-first")
		if s := guard("preceding call of the other kind", func() {
			ctx, cancel := context.WithCancel(context.Background())
			defer cancel()
			if c.Stream {
				ch.Invoke(ctx, mUnary, &pb.Message{Count: 5}, new(pb.Message))
			} else if cs, e := ch.NewStream(ctx, streamDescOf(kBidi), mBidi); e == nil && c.Base != "fake" {
				cs.CloseSend()
				for cs.RecvMsg(new(pb.Message)) == nil {
				}
			}
		}); s != "" {
			return o.failf("stall: %s", s)
		}
		// only the judged call is compared with the model
		seenCtx.Store(nil)
		rec.mu.Lock()
		rec.ev, rec.base = nil, nil
		rec.mu.Unlock()
		hMu.Lock()
		hSeen = nil
		hMu.Unlock()
	}
	stall := guard("call", func() {
		ctx0, cancel := context.WithCancel(context.Background())
		defer cancel()
		if c.DoneCtx && c.Base == "fake" {
			cancel()
		}
		for call := 0; call < calls; call++ {
			ctx := ctx0
			if call > 0 {
				if p := seenCtx.Load(); p != nil {
					ctx = *p
				}
				if err != nil || wantCode != codes.OK || wantBare {
					// the first call failed: the follow-up is made all the same, its own result is not looked at
					var out2 pb.Message
					if c.Stream {
						if cs, e := ch.NewStream(ctx, c17Desc(&c), mBidi, opts...); e == nil && c.Base != "fake" {
							cs.CloseSend()
							for cs.RecvMsg(new(pb.Message)) == nil {
							}
						}
					} else {
						ch.Invoke(ctx, mUnary, &pb.Message{Count: 5}, &out2, opts...)
					}
					continue
				}
			}
			if c.Stream {
				gotStream, err = ch.NewStream(ctx, c17Desc(&c), mBidi, opts...)
				if err == nil && c.Base != "fake" {
					gotStream.CloseSend()
					for i := 0; i < 3; i++ {
						if err = gotStream.RecvMsg(new(pb.Message)); err != nil {
							break
						}
					}
					if fmt.Sprint(err) == "EOF" {
						err = nil
					}
				}
				continue
			}
			err = ch.Invoke(ctx, mUnary, &pb.Message{Count: 5}, &out, opts...)
		}
	})
	if stall != "" {
		return o.failf("stall: %s", stall)
	}
	rec.mu.Lock()
	gotLog, gotBase := append([]string{}, rec.ev...), append([]string{}, rec.base...)
	rec.mu.Unlock()
	hMu.Lock()
	seen := append([]string{}, hSeen...)
	hMu.Unlock()
	o.Observed = map[string]interface{}{"log": gotLog, "want": wantLog, "base": gotBase, "handler": seen, "err": errStr(err)}
	if !sameStrings(gotLog, wantLog) {
		return o.failf("base=%s: interceptor log %v, expected %v", c.Base, gotLog, wantLog)
	}
	rewritten := method != mUnary && method != mBidi
	if c.Base == "fake" {
		if !sameStrings(gotBase, wantBase) {
			return o.failf("base channel saw %v, expected %v", gotBase, wantBase)
		}
		if c.Stream && reachesBase && gotStream != rec.stream {
			return o.failf("the stream returned to the caller is not the one the base channel created")
		}
	} else if reachesBase && !rewritten {
		var want []string
		for i := 0; i < baseHits; i++ {
			if c.Stream {
				want = append(want, "stream:"+kBidi)
			} else {
				want = append(want, fmt.Sprintf("unary:%d", hitCounts[i]))
			}
		}
		if !sameStrings(seen, want) {
			return o.failf("base=%s: handler saw %v, expected %v", c.Base, seen, want)
		}
	} else if len(seen) != 0 {
		return o.failf("base=%s: handler ran (%v) although the call was short-circuited or redirected", c.Base, seen)
	}
	if rewritten && reachesBase && c.Base != "fake" {
		if err == nil {
			return o.failf("call to rewritten (unregistered) method %q succeeded", method)
		}
		return o
	}
	if wantBare {
		if err != context.Canceled {
			return o.failf("base=%s: interceptor returned the bare context.Canceled, the caller got %T %v (results must pass through unchanged)", c.Base, err, err)
		}
		return o
	}
	if status.Code(err) != wantCode {
		return o.failf("base=%s: result %v, expected %v", c.Base, err, wantCode)
	}
	if !c.Stream && wantCode == codes.OK && out.Count != wantCount {
		return o.failf("base=%s: reply count %d, expected %d", c.Base, out.Count, wantCount)
	}
	return o
}

func sameStrings(a, b []string) bool {
	if len(a) != len(b) {
		return false
	}
	for i := range a {
		if a[i] != b[i] {
			return false
		}
	}
	return true
}

func genC17(t *rapid.T) c17Case {
	if rapid.IntRange(0, 14).Draw(t, "switchmode") == 0 {
		c := c17Case{Base: "switch", Stream: rapid.Bool().Draw(t, "stream")}
		c.Layers = make([]c17Layer, rapid.IntRange(1, 3).Draw(t, "switchdepth"))
		c.Switch = rapid.SliceOfN(rapid.SampledFrom([]string{"inproc", "grpc"}), 2, 4).Draw(t, "targets")
		c.SwitchInner = rapid.IntRange(0, 2).Draw(t, "switchinner")
		c.SwitchOneKind = rapid.IntRange(0, 2).Draw(t, "switchonekind") == 0
		return c
	}
	c := c17Case{Base: rapid.SampledFrom([]string{"fake", "fake", "inproc", "http", "grpc", "grpc"}).Draw(t, "base"), Stream: rapid.Bool().Draw(t, "stream"), NOpts: rapid.IntRange(0, 2).Draw(t, "nopts")}
	n := rapid.OneOf(rapid.IntRange(0, 4), rapid.IntRange(0, 8)).Draw(t, "depth")
	c.Sibling = rapid.IntRange(0, 2).Draw(t, "sibling") == 0
	c.ViaOld = rapid.Bool().Draw(t, "viaold")
	c.DoneCtx = c.Base == "fake" && rapid.IntRange(0, 3).Draw(t, "donectx") == 0
	c.Follow = rapid.IntRange(0, 3).Draw(t, "follow") == 0
	c.DescFlags = rapid.SampledFrom([]int{-1, -1, 0, 0, 1, 2, 3}).Draw(t, "descflags")
	c.OtherFirst = rapid.IntRange(0, 2).Draw(t, "otherfirst") == 0
	c.ByValue = c.Base == "fake" && rapid.IntRange(0, 2).Draw(t, "byvalue") == 0
	ub := []string{"", "pass", "pass", "pass", "sc-err", "sc-ctxerr", "sc-ok", "add-opt", "drop-opts", "rw-method", "twice", "rw-req"}
	sb := []string{"", "pass", "pass", "pass", "sc-err", "sc-ctxerr", "add-opt", "drop-opts", "rw-method"}
	for i := 0; i < n; i++ {
		c.Layers = append(c.Layers, c17Layer{Unary: rapid.SampledFrom(ub).Draw(t, "u"), Stream: rapid.SampledFrom(sb).Draw(t, "s")})
	}
	return c
}

func init() { registerReplay("C17", propC17) }

const c17Rule = "rapid-generated: base channel (recording fake, in-process, httpgrpc, real *grpc.ClientConn over bufconn) x 0..4 InterceptClientConn layers, each with nil or non-nil unary and stream interceptors x behaviours (pass, short-circuit error incl. a bare context error, short-circuit success, append / drop call options, rewrite the method, use the invoker twice) x 0..2 caller options x unary/stream call (stream descriptors with every combination of flags, also neither, on the fake base) x caller context live or already cancelled (fake base) x optionally a second identical call made with the context the innermost interceptor of the first was handed; " +
	"oracle = model log (recursive interpreter): outermost wrapper first, each applicable interceptor once per use of the invoker above it, with the method and option count as transformed so far and cc = the underlying *grpc.ClientConn iff the base is one (at every depth, unary and stream alike); the base sees method/message/options as transformed; nil,nil returns the same channel; Unwrap returns the wrapped one; " +
	"also generated since the seeded rounds: interceptors handing on a request of their own (the base and the handler see that one), chains up to 8 deep, a sibling wrapper created over the same inner channel after the chain was built, a user-defined WrappedClientConn below the layers whose target changes between calls (the interceptors get the conn underlying each call); " +
	"non-trivial = depth >= 2; distinct by case hash"

func TestC17(t *testing.T) {
	runProp(t, "C17", c17Rule, genC17, propC17)
}
