package harness

// C10 — in-process handlers get metadata, peer, deadline, but no caller context values.

import (
	"context"
	"errors"
	"fmt"
	"google.golang.org/grpc/credentials"
	"io"
	"runtime/pprof"
	"strings"
	"sync"
	"testing"
	"time"

	"google.golang.org/grpc"
	"google.golang.org/grpc/metadata"
	"google.golang.org/grpc/peer"
	"pgregory.net/rapid"

	pb "github.com/fullstorydev/grpchan/grpchantesting"
	"github.com/fullstorydev/grpchan/inprocgrpc"
)

type c10Val struct {
	KeyKind string // string | int | struct | pointer | typed
	ID      int
	Val     string
}

type c10Level struct {
	Stream bool
	Vals   []c10Val
	OutMD  MDSpec // nil = no outgoing metadata attached at this level
	NoMD   bool   // true: explicitly none (OutMD ignored)
	InMD   MDSpec `json:",omitempty"` // level 0 only: incoming metadata planted in the caller's context
	Peer   bool   `json:",omitempty"` // level 0 only: a peer planted in the caller's context
	// Creds: the call carries per-RPC credentials. "own" = under a key of their own, "collide" = under a key the
	// caller's outgoing metadata uses too (a gateway relaying the end user's header while authenticating itself):
	// the handler still sees every value the caller attached, next to the credentials' one
	Creds string `json:",omitempty"`
	// MixedCase: the caller's metadata map is one it did not build with the metadata package (e.g. metadata.MD of an
	// http.Header): its first key is spelled with capitals, and one more value for it is appended with
	// AppendToOutgoingContext in lower case: the handler sees both, in that order, under the lower-case key
	MixedCase bool `json:",omitempty"`
}

const c10CredValue = "cred-value-of-the-call"

type c10Creds struct{ md map[string]string }

func (c c10Creds) GetRequestMetadata(ctx context.Context, uri ...string) (map[string]string, error) {
	return c.md, nil
}
func (c10Creds) RequireTransportSecurity() bool { return false }

type c10Case struct {
	Levels      []c10Level // level 0 = the outermost caller; each handler makes the next call from its own context
	DeadlineNs  int64      // 0 = none (set on the outermost caller)
	Interceptor bool
	Cancel      bool // cancel the outermost caller while the innermost handler is running
	Mutate      bool // handlers mutate the metadata they see; callers mutate theirs after the call
	// Again > 0: separate mode - Again+1 calls in a row on one channel with the very same context object; the
	// caller updates its attached metadata map in place between the calls (metadata is read when a call is
	// made), and every handler sees the metadata as it was when its call was made
	Again       int  `json:",omitempty"`
	AgainStream bool `json:",omitempty"`
	// Ends != "": separate mode - one call whose handler looks at how its context ends. "deadline": the caller's
	// (short) deadline passes while the handler waits; "cancel": the caller cancels; "live": the call completes and
	// the caller's context stays live. The handler's context and the client-context accessor end when and why the
	// caller's context does (DeadlineExceeded vs Canceled), and the accessor's context outlives the handler.
	Ends       string `json:",omitempty"`
	EndsStream bool   `json:",omitempty"`
	EndsInt    bool   `json:",omitempty"` // with a server interceptor on the channel
	EndsCause  bool   `json:",omitempty"` // the caller's context ends with a cause of its own (WithCancelCause / WithTimeoutCause)
	MutCaller  bool   // streaming callers modify the very map they attached, after the call has started and before the handler looks
}

type c10StrKey string
type c10StructKey struct{ A, B int }

var c10Ptrs [8]*int

func init() {
	for i := range c10Ptrs {
		c10Ptrs[i] = new(int)
	}
}

var c10EmptyKey = new(struct{})

func (v c10Val) key() interface{} {
	switch v.KeyKind {
	case "string":
		return fmt.Sprintf("k%d", v.ID) // plain string key (discouraged but legal)
	case "int":
		return v.ID
	case "struct":
		return c10StructKey{v.ID, 1}
	case "pointer":
		return c10Ptrs[v.ID%len(c10Ptrs)]
	case "emptystructptr":
		// a pointer to a zero-size value, as keys written new(struct{}) or &struct{}{} are: every one of them may
		// have the same address as any other zero-size variable of the program
		return c10EmptyKey
	default:
		return c10StrKey(fmt.Sprintf("t%d", v.ID))
	}
}

type c10Probe struct {
	mu     sync.Mutex
	faults []string
	ready  chan struct{}
	done   []bool
	inner  chan struct{} // closed when the innermost handler of a cancel case is through with its checks
}

func (p *c10Probe) fault(format string, a ...interface{}) {
	p.mu.Lock()
	if len(p.faults) < 8 {
		p.faults = append(p.faults, fmt.Sprintf(format, a...))
	}
	p.mu.Unlock()
}

func c10Ends(c c10Case) *Outcome {
	o := &Outcome{NonTrivial: true}
	o.class("context-end/%s/stream=%v/interceptor=%v/cause=%v", c.Ends, c.EndsStream, c.EndsInt, c.EndsCause)
	type seenT struct {
		ctxErr, ccErr error
		cc            context.Context
		waited        bool
		dl0, dl1      time.Time // the handler's Deadline() on entry and once its context is done
		has0, has1    bool
		label         string
		hasLabel      bool
	}
	res := make(chan seenT, 1)
	started := make(chan struct{})
	look := func(ctx context.Context) {
		close(started)
		var s seenT
		s.cc = inprocgrpc.ClientContext(ctx)
		s.label, s.hasLabel = pprof.Label(ctx, "tenant")
		if c.Ends != "live" {
			s.dl0, s.has0 = ctx.Deadline()
			select {
			case <-ctx.Done():
				s.waited = true
			case <-time.After(stallBound / 2):
			}
			s.dl1, s.has1 = ctx.Deadline()
			s.ctxErr = ctx.Err()
			if s.cc != nil {
				select {
				case <-s.cc.Done():
				case <-time.After(time.Second):
				}
				s.ccErr = s.cc.Err()
			}
		}
		res <- s
	}
	svc := &Service{
		Unary: func(ctx context.Context, req *pb.Message) (*pb.Message, error) {
			look(ctx)
			return &pb.Message{}, nil
		},
		Stream: func(kind string, stream grpc.ServerStream) error {
			look(stream.Context())
			return nil
		},
	}
	ch := &inprocgrpc.Channel{}
	if c.EndsInt {
		ch.WithServerUnaryInterceptor(func(ctx context.Context, req interface{}, info *grpc.UnaryServerInfo, handler grpc.UnaryHandler) (interface{}, error) {
			return handler(ctx, req)
		})
		ch.WithServerStreamInterceptor(func(srv interface{}, ss grpc.ServerStream, info *grpc.StreamServerInfo, handler grpc.StreamHandler) error {
			return handler(srv, ss)
		})
	}
	ch.RegisterService(newServiceDesc(), svc)
	// the caller's context carries profiler labels (set by middleware with pprof.Do): values of the caller's context like
	// any other, which a handler does not get to see
	base := pprof.WithLabels(context.Background(), pprof.Labels("tenant", "acme-secret"))
	ctx, cancel := context.WithCancel(base)
	defer cancel()
	wantErr := error(nil)
	switch c.Ends {
	case "deadline":
		var cancelDL context.CancelFunc
		if c.EndsCause {
			ctx, cancelDL = context.WithTimeoutCause(ctx, 15*time.Millisecond, errors.New("caller's budget used up"))
		} else {
			ctx, cancelDL = context.WithTimeout(ctx, 15*time.Millisecond)
		}
		defer cancelDL()
		wantErr = context.DeadlineExceeded
	case "cancel":
		wantErr = context.Canceled
		var cancelCause context.CancelCauseFunc
		if c.EndsCause {
			ctx, cancelCause = context.WithCancelCause(ctx)
		}
		go func() {
			select {
			case <-started:
			case <-time.After(stallBound / 2):
			}
			if cancelCause != nil {
				cancelCause(errors.New("user pressed stop"))
				return
			}
			cancel()
		}()
	}
	var err error
	var s seenT
	got := false
	liveFault := ""
	stall := guard("call", func() {
		if c.EndsStream {
			var cs grpc.ClientStream
			cs, err = ch.NewStream(ctx, streamDescOf(kBidi), mBidi)
			if err == nil {
				cs.CloseSend()
				if c.Ends == "live" {
					// the handler is through while the client has not yet looked at the outcome: the call is still
					// in progress on the caller's side and the caller's context is live, so the accessor's is too
					select {
					case s = <-res:
						got = true
						time.Sleep(3 * time.Millisecond)
						if s.cc != nil {
							if e := s.cc.Err(); e != nil {
								liveFault = fmt.Sprintf("the handler has returned, the caller has not yet received the outcome and its context is live, yet the context from ClientContext reports %v", e)
							}
						}
					case <-time.After(stallBound / 2):
					}
				}
				if err = cs.RecvMsg(new(pb.Message)); err == io.EOF {
					err = nil
				}
			}
			return
		}
		err = ch.Invoke(ctx, mUnary, &pb.Message{}, new(pb.Message))
	})
	if stall != "" {
		return o.failf("stall: %s", stall)
	}
	if !got {
		select {
		case s = <-res:
		case <-time.After(stallBound):
			select {
			case <-started:
				return o.failf("context-end/%s: the handler did not come to an end", c.Ends)
			default:
				// the context ended before the handler was dispatched: nothing to look at
				o.NonTrivial = false
				return o
			}
		}
	}
	o.Observed = map[string]interface{}{"call": errStr(err), "handler_ctx_err": errStr(s.ctxErr), "client_context_err": errStr(s.ccErr)}
	if s.cc == nil {
		return o.failf("context-end/%s: ClientContext(ctx) is nil in the handler", c.Ends)
	}
	if s.hasLabel {
		return o.failf("context-end/%s (stream=%v): the handler's context shows the profiler label tenant=%q of the caller's context", c.Ends, c.EndsStream, s.label)
	}
	if c.Ends == "live" {
		if err != nil {
			return o.failf("context-end/live: call failed: %v", err)
		}
		if liveFault != "" {
			return o.failf("context-end/live (stream): %s", liveFault)
		}
		// (once the caller's side of the call is complete the library ends the context it handed out; whether
		// it should is not something the property says)
		return o
	}
	if !s.waited {
		return o.failf("context-end/%s: the caller's context ended, the handler's context was not done %v later", c.Ends, stallBound/2)
	}
	if s.ctxErr != wantErr {
		return o.failf("context-end/%s (stream=%v): the handler's ctx.Err() is %v, the caller's context ended with %v", c.Ends, c.EndsStream, s.ctxErr, wantErr)
	}
	if s.ccErr != wantErr {
		return o.failf("context-end/%s (stream=%v): ClientContext(ctx).Err() is %v in the handler, the caller's context ended with %v", c.Ends, c.EndsStream, s.ccErr, wantErr)
	}
	// the deadline the handler is told is the caller's, on entry and just the same once it has passed (or, for a
	// caller without one, none at either moment)
	callerDL, callerHas := ctx.Deadline()
	for i, got := range []struct {
		dl  time.Time
		has bool
	}{{s.dl0, s.has0}, {s.dl1, s.has1}} {
		when := []string{"on entry", "after its context ended"}[i]
		if got.has != callerHas || (callerHas && !got.dl.Equal(callerDL)) {
			return o.failf("context-end/%s (stream=%v): the handler's ctx.Deadline() %s is (%v, %v), the caller's is (%v, %v)", c.Ends, c.EndsStream, when, got.dl, got.has, callerDL, callerHas)
		}
	}
	return o
}

func c10Again(c c10Case) *Outcome {
	o := &Outcome{NonTrivial: true}
	o.class("same-context-again/calls=%d/stream=%v", c.Again+1, c.AgainStream)
	var mu sync.Mutex
	var seen []string
	note := func(ctx context.Context) {
		md, _ := metadata.FromIncomingContext(ctx)
		mu.Lock()
		seen = append(seen, strings.Join(md.Get("q-request-id"), ",")+"/"+strings.Join(md.Get("q-static"), ","))
		mu.Unlock()
	}
	svc := &Service{
		Unary: func(ctx context.Context, req *pb.Message) (*pb.Message, error) { note(ctx); return &pb.Message{}, nil },
		Stream: func(kind string, stream grpc.ServerStream) error {
			note(stream.Context())
			for stream.RecvMsg(new(pb.Message)) == nil {
			}
			return nil
		},
	}
	ch := &inprocgrpc.Channel{}
	ch.RegisterService(newServiceDesc(), svc)
	md := metadata.Pairs("q-request-id", "1", "q-static", "s")
	ctx := metadata.NewOutgoingContext(context.Background(), md)
	var want []string
	for k := 0; k <= c.Again; k++ {
		md["q-request-id"][0] = fmt.Sprint(k + 1) // in place: same map, same slice, same context
		want = append(want, fmt.Sprintf("%d/s", k+1))
		var err error
		stall := guard("call", func() {
			if c.AgainStream {
				var cs grpc.ClientStream
				cs, err = ch.NewStream(ctx, streamDescOf(kBidi), mBidi)
				if err == nil {
					cs.CloseSend()
					if err = cs.RecvMsg(new(pb.Message)); fmt.Sprint(err) == "EOF" {
						err = nil
					}
				}
				return
			}
			err = ch.Invoke(ctx, mUnary, &pb.Message{}, new(pb.Message))
		})
		if stall != "" {
			return o.failf("stall: %s", stall)
		}
		if err != nil {
			return o.failf("call %d with the same context failed: %v", k+1, err)
		}
	}
	mu.Lock()
	defer mu.Unlock()
	o.Observed = map[string]interface{}{"handlers_saw": seen, "want": want}
	if !sameStrings(seen, want) {
		return o.failf("calls made one after the other with the same context object, metadata updated in place in between: handlers saw %v, the metadata at the time of each call was %v", seen, want)
	}
	return o
}

func propC10(c c10Case) *Outcome {
	if c.Ends != "" {
		return c10Ends(c)
	}
	if c.Again > 0 {
		return c10Again(c)
	}
	o := &Outcome{}
	o.class("depth=%d/interceptor=%v/deadline=%v/cancel=%v", len(c.Levels), c.Interceptor, c.DeadlineNs != 0, c.Cancel)
	for _, l := range c.Levels {
		if l.Creds != "" {
			o.class("per-rpc-credentials=%s", l.Creds)
		}
	}
	nvals := 0
	anyMD := false
	for _, l := range c.Levels {
		nvals += len(l.Vals)
		anyMD = anyMD || (!l.NoMD && len(l.OutMD) > 0)
	}
	o.NonTrivial = nvals >= 1 && (len(c.Levels) >= 2 || anyMD)
	p := &c10Probe{ready: make(chan struct{}), inner: make(chan struct{}), done: make([]bool, len(c.Levels))}
	ch := &inprocgrpc.Channel{}
	if c.Interceptor {
		ch.WithServerUnaryInterceptor(func(ctx context.Context, req interface{}, info *grpc.UnaryServerInfo, handler grpc.UnaryHandler) (interface{}, error) {
			return handler(ctx, req)
		})
		ch.WithServerStreamInterceptor(func(srv interface{}, ss grpc.ServerStream, info *grpc.StreamServerInfo, handler grpc.StreamHandler) error {
			return handler(srv, ss)
		})
	}
	// callerCtx[i] = the context with which call i was made; set before the call
	callerCtx := make([]context.Context, len(c.Levels))
	// sentMD[i] = copy of the outgoing metadata of call i as it was when the call was made
	sentMD := make([]metadata.MD, len(c.Levels))
	// credKey[i] = the key under which call i's per-RPC credentials put their value ("" = no credentials)
	credKey := make([]string, len(c.Levels))
	var deadline time.Time
	var makeCall func(level int, base context.Context) error

	check := func(level int, ctx context.Context, wantMethod string) {
		cctx := callerCtx[level]
		// (1) no caller value leaks, at any enclosing level
		for li := 0; li <= level; li++ {
			for _, v := range c.Levels[li].Vals {
				if got := ctx.Value(v.key()); got != nil {
					p.fault("level %d handler: ctx.Value(%#v) = %v (set by caller level %d)", level, v.key(), got, li)
				}
				if li == level || true {
					if got := cctx.Value(v.key()); got != v.Val && li == level {
						p.fault("harness: caller ctx lacks its own value %#v", v.key())
					}
				}
			}
		}
		// (2) back door: exactly the caller's context
		// (the accessor may hand out a context derived from the caller's, e.g. by WithCancel:
		// what matters is that it is the caller's chain - values, deadline, cancellation)
		if cc := inprocgrpc.ClientContext(ctx); cc == nil {
			p.fault("level %d handler: ClientContext(ctx) is nil", level)
		} else {
			if d1, ok1 := cc.Deadline(); ok1 != (c.DeadlineNs != 0) || (ok1 && !d1.Equal(deadline)) {
				p.fault("level %d handler: ClientContext(ctx) deadline %v/%v", level, d1, ok1)
			}
			for _, v := range c.Levels[level].Vals {
				if got := cc.Value(v.key()); got != v.Val {
					p.fault("level %d handler: ClientContext(ctx).Value(%#v) = %v, want %q", level, v.key(), got, v.Val)
				}
			}
		}
		// (3) incoming metadata = the caller's outgoing metadata, nothing else
		want, hasWant := sentMD[level], sentMD[level] != nil
		got, hasGot := metadata.FromIncomingContext(ctx)
		if k := credKey[level]; k != "" {
			// the credentials' value arrives too; taking it out must leave exactly what the caller attached
			got = got.Copy()
			at := -1
			for i, v := range got[k] {
				if v == c10CredValue {
					at = i
				}
			}
			if at < 0 {
				p.fault("level %d handler: the value of the call's credentials is missing under %q: incoming %v", level, k, got)
			} else if got[k] = append(got[k][:at:at], got[k][at+1:]...); len(got[k]) == 0 {
				delete(got, k)
			}
		}
		if !hasWant || len(want) == 0 {
			if hasGot && len(got) > 0 {
				p.fault("level %d handler: caller attached no outgoing metadata, handler sees incoming %v", level, got)
			}
		} else {
			if ok, why := mdContains(got, want); !ok {
				p.fault("level %d handler: incoming metadata: %s", level, why)
			}
			if len(got) != len(want) {
				p.fault("level %d handler: incoming metadata has keys %v, caller sent %v", level, got, want)
			}
		}
		// (4) peer
		if pr, ok := peer.FromContext(ctx); !ok || pr.Addr == nil || pr.Addr.Network() != "inproc" {
			p.fault("level %d handler: peer = %v", level, pr)
		} else if pr.AuthInfo != nil && pr.AuthInfo.AuthType() != "inproc" {
			// a peer in the caller's context (a value under a key gRPC itself uses) must not show through
			p.fault("level %d handler: in-process peer carries auth info of type %q", level, pr.AuthInfo.AuthType())
		}
		// (5) deadline
		dl, has := ctx.Deadline()
		if c.DeadlineNs != 0 {
			if !has || !dl.Equal(deadline) {
				p.fault("level %d handler: deadline %v (has=%v), caller's is %v", level, dl, has, deadline)
			}
		} else if has {
			p.fault("level %d handler: deadline %v but the caller has none", level, dl)
		}
		// (6) transport stream of this very call
		sts := grpc.ServerTransportStreamFromContext(ctx)
		if sts == nil || sts.Method() != wantMethod {
			m := "<nil>"
			if sts != nil {
				m = sts.Method()
			}
			p.fault("level %d handler: ServerTransportStream.Method() = %s, want %s", level, m, wantMethod)
		}
		// (7) metadata isolation
		if c.Mutate && hasGot {
			got["zz-injected"] = []string{"by-handler"}
			for k := range got {
				if len(got[k]) > 0 {
					got[k][0] = "overwritten-by-handler"
				}
			}
			if again, _ := metadata.FromOutgoingContext(cctx); again != nil {
				// (with MutCaller the caller itself has changed its map; only the handler's marks matter then)
				hv := false
				for _, vs := range again {
					for _, v := range vs {
						hv = hv || v == "overwritten-by-handler"
					}
				}
				if ok, why := mdContains(again, want); (!ok && !c.MutCaller) || hv || len(again["zz-injected"]) != 0 {
					p.fault("level %d: handler's metadata mutation is visible in the caller's outgoing metadata: %s %v", level, why, again["zz-injected"])
				}
			}
		}
	}
	body := func(level int, ctx context.Context, method string) error {
		check(level, ctx, method)
		if level+1 < len(c.Levels) {
			return makeCall(level+1, ctx)
		}
		if c.Cancel {
			defer close(p.inner)
			close(p.ready)
			select {
			case <-ctx.Done():
				// the caller's side has gone (its Invoke / receive returns about now); this handler is
				// still running and the accessor still answers with the caller's context
				for i := 0; i < 3; i++ {
					time.Sleep(300 * time.Microsecond)
					cc := inprocgrpc.ClientContext(ctx)
					if cc == nil {
						p.fault("level %d handler, still running after the caller's cancellation: ClientContext(ctx) is nil", level)
						break
					}
					for _, v := range c.Levels[level].Vals {
						if got := cc.Value(v.key()); got != v.Val {
							p.fault("level %d handler, still running after the caller's cancellation: ClientContext(ctx).Value(%#v) = %v, want %q", level, v.key(), got, v.Val)
						}
					}
				}
			case <-time.After(stallBound):
				p.fault("innermost handler (level %d): context not cancelled within %v of the caller's cancellation", level, stallBound)
			}
			return ctx.Err()
		}
		return nil
	}
	svc := &Service{
		Unary: func(ctx context.Context, req *pb.Message) (*pb.Message, error) {
			level := int(req.Count)
			if err := body(level, ctx, mUnary); err != nil {
				return nil, err
			}
			return &pb.Message{}, nil
		},
		Stream: func(kind string, stream grpc.ServerStream) error {
			m := new(pb.Message)
			if err := stream.RecvMsg(m); err != nil {
				return err
			}
			return body(int(m.Count), stream.Context(), mBidi)
		},
	}
	ch.RegisterService(newServiceDesc(), svc)
	makeCall = func(level int, base context.Context) error {
		l := c.Levels[level]
		ctx := base
		for _, v := range l.Vals {
			ctx = context.WithValue(ctx, v.key(), v.Val)
		}
		var attached metadata.MD
		if !l.NoMD && l.OutMD != nil {
			attached = l.OutMD.MD()
			if l.MixedCase && len(l.OutMD) > 0 && !strings.HasSuffix(l.OutMD[0].K, "-bin") {
				k := strings.ToLower(l.OutMD[0].K)
				raw := metadata.MD{}
				for kk, vv := range attached {
					if kk == k {
						kk = strings.ToUpper(k[:1]) + k[1:]
					}
					raw[kk] = vv
				}
				ctx = metadata.AppendToOutgoingContext(metadata.NewOutgoingContext(ctx, raw), k, "appended-in-lower-case")
				attached = raw
				want := l.OutMD.MD()
				want[k] = append(want[k], "appended-in-lower-case")
				sentMD[level] = want
			} else {
				ctx = metadata.NewOutgoingContext(ctx, attached)
				sentMD[level] = attached.Copy()
			}
		} else {
			sentMD[level] = nil
		}
		// NoMD: nothing is attached at all. (A handler's context never carries outgoing
		// metadata of an enclosing caller: the value-blocking wrapper hides it.)
		callerCtx[level] = ctx
		callerWant := sentMD[level].Copy() // what the caller's own context says (credentials not included)
		var copts []grpc.CallOption
		credKey[level] = ""
		if l.Creds != "" {
			k := "zz-cred"
			if l.Creds == "collide" {
				for _, kv := range l.OutMD {
					if attached != nil && !strings.HasSuffix(kv.K, "-bin") && !strings.HasPrefix(kv.K, "grpc-") {
						k = strings.ToLower(kv.K)
						break
					}
				}
			}
			credKey[level] = k
			copts = append(copts, grpc.PerRPCCredentials(c10Creds{md: map[string]string{k: c10CredValue}}))
		}
		var err error
		if l.Stream {
			sctx, cancel := context.WithCancel(ctx)
			defer cancel()
			callerCtx[level] = sctx
			var cs grpc.ClientStream
			cs, err = ch.NewStream(sctx, streamDescOf(kBidi), mBidi, copts...)
			if err == nil {
				if c.MutCaller && attached != nil {
					// the call has started; the map is the caller's own again
					attached["zz-late"] = []string{"added-after-the-call-started"}
					for k := range attached {
						if len(attached[k]) > 0 {
							attached[k][0] = "changed-after-the-call-started"
						}
					}
				}
				cs.SendMsg(&pb.Message{Count: int32(level)})
				cs.CloseSend()
				for i := 0; i < 3; i++ {
					if err = cs.RecvMsg(new(pb.Message)); err != nil {
						break
					}
				}
				if fmt.Sprint(err) == "EOF" {
					err = nil
				}
			}
		} else {
			err = ch.Invoke(ctx, mUnary, &pb.Message{Count: int32(level)}, new(pb.Message), copts...)
		}
		if c.Mutate && !l.NoMD && len(l.OutMD) > 0 {
			// the caller's own view must be intact after the call
			again, _ := metadata.FromOutgoingContext(callerCtx[level])
			if ok, why := mdContains(again, callerWant); (!ok && !c.MutCaller) || len(again["zz-injected"]) != 0 {
				p.fault("level %d caller: outgoing metadata changed by the call: %s", level, why)
			}
		}
		return err
	}
	root, cancelRoot := context.WithCancel(context.Background())
	defer cancelRoot()
	l0 := c.Levels[0]
	if len(l0.InMD) > 0 {
		root = metadata.NewIncomingContext(root, l0.InMD.MD())
	}
	if l0.Peer {
		root = peer.NewContext(root, &peer.Peer{Addr: memAddr("203.0.113.9:1"), AuthInfo: credentials.TLSInfo{CommonAuthInfo: credentials.CommonAuthInfo{SecurityLevel: credentials.PrivacyAndIntegrity}}})
	}
	if c.DeadlineNs != 0 {
		deadline = time.Now().Add(time.Duration(c.DeadlineNs))
		var cancel context.CancelFunc
		root, cancel = context.WithDeadline(root, deadline)
		defer cancel()
	}
	var err error
	stall := guard("nested calls", func() {
		if c.Cancel {
			go func() {
				select {
				case <-p.ready:
					cancelRoot()
				case <-time.After(stallBound):
				}
			}()
		}
		err = makeCall(0, root)
	})
	if stall != "" {
		return o.failf("stall: %s", stall)
	}
	if c.Cancel {
		// the calls have returned (cancelled); the innermost handler is still at work for a moment
		select {
		case <-p.ready:
			select {
			case <-p.inner:
			case <-time.After(stallBound):
				return o.failf("innermost handler still running %v after the cancelled calls returned", stallBound)
			}
		default: // the chain never got that far
		}
	}
	p.mu.Lock()
	defer p.mu.Unlock()
	o.Observed = map[string]interface{}{"faults": p.faults, "err": errStr(err)}
	if len(p.faults) > 0 {
		return o.failf("%s", p.faults[0])
	}
	if !c.Cancel && err != nil {
		return o.failf("call failed: %v", err)
	}
	if c.Cancel && err == nil {
		return o.failf("caller cancelled while the handler was running, call returned nil")
	}
	return o
}

func genC10(t *rapid.T) c10Case {
	if rapid.IntRange(0, 19).Draw(t, "ends") == 0 {
		return c10Case{Ends: rapid.SampledFrom([]string{"deadline", "cancel", "live"}).Draw(t, "endshow"), EndsStream: rapid.Bool().Draw(t, "endsstream"), EndsInt: rapid.Bool().Draw(t, "endsint"), EndsCause: rapid.Bool().Draw(t, "endscause")}
	}
	if rapid.IntRange(0, 19).Draw(t, "again") == 0 {
		return c10Case{Again: rapid.IntRange(1, 3).Draw(t, "againn"), AgainStream: rapid.Bool().Draw(t, "againstream")}
	}
	c := c10Case{Interceptor: rapid.Bool().Draw(t, "interceptor"), Cancel: rapid.IntRange(0, 3).Draw(t, "cancel") == 0, Mutate: rapid.Bool().Draw(t, "mutate"), MutCaller: rapid.Bool().Draw(t, "mutcaller")}
	if rapid.Bool().Draw(t, "deadline") {
		c.DeadlineNs = int64(rapid.IntRange(1, 100).Draw(t, "dl-hours")) * int64(time.Hour)
	}
	depth := rapid.IntRange(1, 3).Draw(t, "depth")
	id := 0
	for i := 0; i < depth; i++ {
		l := c10Level{Stream: rapid.Bool().Draw(t, "stream")}
		nv := rapid.IntRange(0, 6).Draw(t, "nvals")
		for j := 0; j < nv; j++ {
			id++
			kk := rapid.SampledFrom([]string{"string", "int", "struct", "pointer", "typed", "emptystructptr"}).Draw(t, "keykind")
			if kk == "emptystructptr" {
				// (all pointers to zero-size values are one key: one per level)
				for _, v := range l.Vals {
					if v.KeyKind == kk {
						kk = "typed"
					}
				}
			}
			l.Vals = append(l.Vals, c10Val{KeyKind: kk, ID: id, Val: fmt.Sprintf("v%d", id)})
		}
		switch rapid.IntRange(0, 3).Draw(t, "md") {
		case 0:
			l.NoMD = true
		default:
			l.OutMD = genMD(t, "outmd", 3)
			if rapid.IntRange(0, 4).Draw(t, "grpckey") == 0 {
				// grpc-prefixed keys that applications (tracing, retry accounting) do send and that the
				// standard transport delivers: only a fixed list of grpc- names is reserved
				k := rapid.SampledFrom([]string{"grpc-trace-bin", "grpc-tags-bin", "grpc-previous-rpc-attempts", "grpc-custom"}).Draw(t, "grpckeyname")
				l.OutMD = append(l.OutMD, MDPair{K: k, V: genMDValue(t, "grpckeyval", strings.HasSuffix(k, "-bin"))})
			}
			if l.OutMD == nil {
				l.NoMD = true
			}
		}
		l.MixedCase = rapid.IntRange(0, 4).Draw(t, "mixedcase") == 0
		if rapid.IntRange(0, 3).Draw(t, "creds") == 0 {
			l.Creds = rapid.SampledFrom([]string{"own", "collide", "collide"}).Draw(t, "credskey")
		}
		if i == 0 {
			if rapid.Bool().Draw(t, "inmd") {
				l.InMD = genMD(t, "inmd", 2)
			}
			l.Peer = rapid.Bool().Draw(t, "peer")
		}
		c.Levels = append(c.Levels, l)
	}
	return c
}

func init() { registerReplay("C10", propC10) }

const c10Rule = "rapid-generated: 1..3 nesting levels (each in-process handler makes the next call from its own context, so the caller's context carries an enclosing call's incoming metadata, peer, transport stream and client-context key), 0..6 context values per level under string/int/struct/pointer/typed keys, outgoing metadata present or absent per level, incoming metadata and a foreign peer planted in the outermost context, optional deadline, unary or streaming per level, with/without server interceptors, optional cancellation of the outermost caller, optional metadata mutation on both sides, optional per-RPC credentials per level under a key of their own or under one the caller's metadata uses too; a separate mode where the caller's context really ends (15 ms deadline, or cancellation once the handler runs) or stays live after the call: the handler's ctx.Err() and ClientContext(ctx).Err() say DeadlineExceeded resp. Canceled (also when the caller's context ends with a cause of its own), ctx.Deadline() in the handler is the caller's on entry and still after it has passed, profiler labels of the caller's context are not visible, and the accessor's context is still live after the handler has returned; " +
	"oracle in every handler: ctx.Value(k) == nil for every key of every enclosing caller; ClientContext(ctx) is the caller's context and yields its values; incoming metadata = caller's outgoing metadata (none => none); peer network inproc; deadline equal to the caller's; ServerTransportStream.Method() is this call's method; cancellation reaches the innermost handler; metadata mutation on one side invisible on the other; " +
	"also generated since the seeded rounds: callers mutating their metadata map after the call started, grpc-prefixed application keys (grpc-trace-bin, ...), a caller peer with TLS auth info (the handler's peer must stay purely in-process); " +
	"non-trivial = >=1 caller value and (nested or outgoing metadata present); distinct by case hash"

func TestC10(t *testing.T) {
	runProp(t, "C10", c10Rule, genC10, propC10)
}
