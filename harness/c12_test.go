package harness

// C12 — method names resolve to exactly the registered handler, or fail cleanly.

import (
	"context"
	"fmt"
	"net"
	"net/http"
	"net/url"
	"path"
	"runtime/debug"
	"strings"
	"sync"
	"testing"

	"google.golang.org/grpc"
	"google.golang.org/grpc/codes"
	"google.golang.org/grpc/status"
	"pgregory.net/rapid"

	"github.com/fullstorydev/grpchan"
	pb "github.com/fullstorydev/grpchan/grpchantesting"
	"github.com/fullstorydev/grpchan/httpgrpc"
	"github.com/fullstorydev/grpchan/inprocgrpc"
)

type c12Svc struct {
	Name    string
	Unary   []string
	Streams []string
}

type c12Case struct {
	Carrier   string
	Base      string // HTTP carriers: base path on both sides
	Services  []c12Svc
	Name      string // the method name the client calls
	ViaStream bool   // call through NewStream instead of Invoke
	Origin    string `json:",omitempty"`
	// Pre: calls made on the same channel before the one that is judged (state must not leak from
	// one call to the next): each is a name and whether it goes through NewStream
	Pre []c12Call `json:",omitempty"`
	// Late: the last service is registered only after the preceding calls were served (inproc channel
	// and httpgrpc.Server; HandleServices registers in bulk once)
	Late bool `json:",omitempty"`
	// Creds: the judged call carries per-RPC credentials (which are told the method's URI)
	Creds bool `json:",omitempty"`
	// Decorated: every description goes through grpchan.InterceptServer (pass-through interceptors) before it is registered
	Decorated bool `json:",omitempty"`
	// DescHandler: the StreamDesc the client passes to NewStream carries a handler of its own (as the
	// descriptors used by generated stubs do)
	DescHandler bool `json:",omitempty"`
	// StreamFlags: how the registered streaming methods are declared: 0 = bidi, 1 = client-streaming only,
	// 2 = server-streaming only. The caller keeps using a generic bidi descriptor (as transparent proxies do):
	// which handler runs is decided by the name alone.
	StreamFlags int `json:",omitempty"`
	// Empty: nothing at all is registered with the server / channel (e.g. the listener was started first): every
	// name is unknown
	Empty bool `json:",omitempty"`
	// NameBytes: the called name when it is not valid UTF-8 (kept as bytes so that the replay file is exact)
	NameBytes []byte `json:",omitempty"`
}

type c12Creds struct{}

func (c12Creds) GetRequestMetadata(ctx context.Context, uri ...string) (map[string]string, error) {
	return map[string]string{"zz-token": "t"}, nil
}
func (c12Creds) RequireTransportSecurity() bool { return false }

type c12Call struct {
	Name      string
	ViaStream bool
}

type c12Counters struct {
	mu sync.Mutex
	n  map[string]int
}

func (c *c12Counters) hit(name string) {
	c.mu.Lock()
	c.n[name]++
	c.mu.Unlock()
}

func c12Desc(s c12Svc, ctr *c12Counters, streamFlags int) *grpc.ServiceDesc {
	d := &grpc.ServiceDesc{ServiceName: s.Name, HandlerType: (*svcIface)(nil)}
	for _, m := range s.Unary {
		full := "/" + s.Name + "/" + m
		d.Methods = append(d.Methods, grpc.MethodDesc{MethodName: m, Handler: func(srv interface{}, ctx context.Context, dec func(interface{}) error, _ grpc.UnaryServerInterceptor) (interface{}, error) {
			in := new(pb.Message)
			if err := dec(in); err != nil {
				return nil, err
			}
			ctr.hit(full)
			return &pb.Message{Count: 1}, nil
		}})
	}
	for _, m := range s.Streams {
		full := "/" + s.Name + "/" + m
		d.Streams = append(d.Streams, grpc.StreamDesc{StreamName: m, ClientStreams: streamFlags != 2, ServerStreams: streamFlags != 1, Handler: func(srv interface{}, stream grpc.ServerStream) error {
			ctr.hit(full)
			for stream.RecvMsg(new(pb.Message)) == nil {
			}
			return nil
		}})
	}
	return d
}

func propC12(c c12Case) *Outcome {
	if len(c.NameBytes) > 0 {
		c.Name = string(c.NameBytes)
	}
	o := &Outcome{}
	o.class("carrier=%s", c.Carrier)
	if c.Origin != "" {
		o.class("name=%s", c.Origin)
	}
	ctr := &c12Counters{n: map[string]int{}}
	registeredUnary, registeredStream := map[string]bool{}, map[string]bool{}
	var descs []*grpc.ServiceDesc
	for _, s := range c.Services {
		d := c12Desc(s, ctr, c.StreamFlags)
		if c.Decorated {
			d = grpchan.InterceptServer(d,
				func(ctx context.Context, req interface{}, _ *grpc.UnaryServerInfo, h grpc.UnaryHandler) (interface{}, error) {
					return h(ctx, req)
				},
				func(srv interface{}, ss grpc.ServerStream, _ *grpc.StreamServerInfo, h grpc.StreamHandler) error {
					return h(srv, ss)
				})
		}
		descs = append(descs, d)
		for _, m := range s.Unary {
			registeredUnary["/"+s.Name+"/"+m] = true
		}
		for _, m := range s.Streams {
			registeredStream["/"+s.Name+"/"+m] = true
		}
	}
	if c.Empty {
		o.class("nothing-registered")
		descs, registeredUnary, registeredStream = nil, map[string]bool{}, map[string]bool{}
	}
	if c.StreamFlags != 0 {
		o.class("registered-streams-declared=%d", c.StreamFlags)
	}
	var conn grpc.ClientConnInterface
	var closer func()
	early, late := descs, []*grpc.ServiceDesc(nil)
	if c.Late && len(descs) > 1 && c.Carrier != cHTTPMux {
		early, late = descs[:len(descs)-1], descs[len(descs)-1:]
		o.class("late-registration")
	}
	registerLate := func() {}
	switch c.Carrier {
	case cInproc:
		ch := &inprocgrpc.Channel{}
		for _, d := range early {
			ch.RegisterService(d, &struct{}{})
		}
		registerLate = func() {
			for _, d := range late {
				ch.RegisterService(d, &struct{}{})
			}
		}
		conn = ch
	default:
		var h http.Handler
		if c.Carrier == cHTTP {
			s := httpgrpc.NewServer(httpgrpc.WithBasePath(c.Base))
			for _, d := range early {
				s.RegisterService(d, &struct{}{})
			}
			registerLate = func() {
				for _, d := range late {
					s.RegisterService(d, &struct{}{})
				}
			}
			h = s
		} else if c.Carrier == cHTTPPer {
			mux := http.NewServeMux()
			for _, d := range early {
				perMethodMux(mux, c.Base, d, &struct{}{}, nil, nil)
			}
			registerLate = func() {
				for _, d := range late {
					perMethodMux(mux, c.Base, d, &struct{}{}, nil, nil)
				}
			}
			h = mux
		} else {
			mux := http.NewServeMux()
			hm := grpchan.HandlerMap{}
			for _, d := range descs {
				hm.RegisterService(d, &struct{}{})
			}
			httpgrpc.HandleServices(mux.HandleFunc, c.Base, hm, nil, nil)
			h = mux
		}
		lis := newMemListener()
		srv := &http.Server{Handler: h}
		go srv.Serve(lis)
		tr := &http.Transport{DialContext: func(ctx context.Context, _, _ string) (net.Conn, error) { return lis.DialContext(ctx) }}
		conn = &httpgrpc.Channel{Transport: tr, BaseURL: &url.URL{Scheme: "http", Host: "verif.test", Path: c.Base}}
		closer = func() { tr.CloseIdleConnections(); srv.Close(); lis.Close() }
	}
	if closer != nil {
		defer closer()
	}
	exact := (registeredUnary[c.Name] && !c.ViaStream) || (registeredStream[c.Name] && c.ViaStream)
	// tolerated by design on both transports: a registered name given without its leading slash
	noSlashAlias := !strings.HasPrefix(c.Name, "/") && ((registeredUnary["/"+c.Name] && !c.ViaStream) || (registeredStream["/"+c.Name] && c.ViaStream))
	o.NonTrivial = !exact || (isHTTP(c.Carrier) && c.Base != "/")
	if isHTTP(c.Carrier) {
		o.class("base-canonical=%v", c.Base == "/" || path.Clean(c.Base) == strings.TrimSuffix(c.Base, "/"))
		o.class("base-segments=%d", strings.Count(strings.Trim(c.Base, "/"), "/")+btoi(strings.Trim(c.Base, "/") != ""))
	}
	// generated stubs hand NewStream the service's own StreamDesc, handler and all; which handler runs is
	// decided by the name and the registration alone - a handler that comes with the caller's descriptor never runs
	clientDesc := func() *grpc.StreamDesc {
		d := &grpc.StreamDesc{ClientStreams: true, ServerStreams: true}
		if c.DescHandler {
			// (named like the method being called, as the descriptor a generated stub passes is)
			d.StreamName = c.Name[strings.LastIndexByte(c.Name, '/')+1:]
			d.Handler = func(srv interface{}, stream grpc.ServerStream) error {
				ctr.hit("!decoy-handler-from-the-callers-descriptor")
				return nil
			}
		}
		return d
	}
	doCall := func(name string, viaStream bool) error {
		ctx, cancel := context.WithCancel(context.Background())
		defer cancel()
		if viaStream {
			cs, err := conn.NewStream(ctx, clientDesc(), name)
			if err != nil {
				return err
			}
			cs.SendMsg(&pb.Message{})
			cs.CloseSend()
			for i := 0; i < 3; i++ {
				if err = cs.RecvMsg(new(pb.Message)); err != nil {
					break
				}
			}
			if fmt.Sprint(err) == "EOF" {
				err = nil
			}
			return err
		}
		return conn.Invoke(ctx, name, &pb.Message{}, new(pb.Message))
	}
	if len(c.Pre) > 0 {
		o.class("preceded-by-other-calls")
		if s := guard("preceding calls", func() {
			defer func() { recover() }()
			for _, pc := range c.Pre {
				doCall(pc.Name, pc.ViaStream)
			}
		}); s != "" {
			return o.failf("%s: preceding calls stalled: %s", c.Carrier, s)
		}
		ctr.mu.Lock()
		ctr.n = map[string]int{} // only the judged call counts
		ctr.mu.Unlock()
	}
	registerLate()
	var copts []grpc.CallOption
	if c.Creds {
		o.class("with-per-rpc-credentials")
		copts = append(copts, grpc.PerRPCCredentials(c12Creds{}))
	}
	var err error
	panicked := ""
	stall := guard("call", func() {
		defer func() {
			if p := recover(); p != nil {
				panicked = fmt.Sprintf("%v\n%s", p, debug.Stack())
			}
		}()
		ctx, cancel := context.WithCancel(context.Background())
		defer cancel()
		if c.ViaStream {
			var cs grpc.ClientStream
			cs, err = conn.NewStream(ctx, clientDesc(), c.Name, copts...)
			if err == nil {
				cs.SendMsg(&pb.Message{})
				cs.CloseSend()
				for i := 0; i < 3; i++ {
					if err = cs.RecvMsg(new(pb.Message)); err != nil {
						break
					}
				}
				if fmt.Sprint(err) == "EOF" {
					err = nil
				}
			}
		} else {
			err = conn.Invoke(ctx, c.Name, &pb.Message{}, new(pb.Message), copts...)
		}
	})
	ctr.mu.Lock()
	hits := map[string]int{}
	total := 0
	for k, v := range ctr.n {
		hits[k] = v
		total += v
	}
	ctr.mu.Unlock()
	o.Observed = map[string]interface{}{"hits": hits, "err": errStr(err), "panic": panicked}
	if panicked != "" {
		return o.failf("%s: calling %q panicked: %s", c.Carrier, c.Name, panicked)
	}
	if stall != "" {
		return o.failf("%s: calling %q stalled: %s", c.Carrier, c.Name, stall)
	}
	if exact {
		if total != 1 || hits[c.Name] != 1 {
			return o.failf("%s (base %q): call to registered %q ran handlers %v (err %v)", c.Carrier, c.Base, c.Name, hits, err)
		}
		if err != nil {
			return o.failf("%s (base %q): call to registered %q failed: %v", c.Carrier, c.Base, c.Name, err)
		}
		return o
	}
	if noSlashAlias {
		if total == 0 && err != nil {
			return o
		}
		if total == 1 && hits["/"+c.Name] == 1 {
			return o
		}
		return o.failf("%s: %q ran handlers %v (err %v)", c.Carrier, c.Name, hits, err)
	}
	if total != 0 {
		return o.failf("%s (base %q): %q is not a registered name, yet handler(s) ran: %v", c.Carrier, c.Base, c.Name, hits)
	}
	if err == nil {
		return o.failf("%s: call to unregistered %q succeeded", c.Carrier, c.Name)
	}
	st, ok := status.FromError(err)
	if !ok || st.Code() == codes.OK {
		return o.failf("%s: call to %q failed with a non-status error: %T %v", c.Carrier, c.Name, err, err)
	}
	kindMismatch := registeredUnary[c.Name] || registeredStream[c.Name]
	if !kindMismatch {
		want := codes.Unimplemented
		if isHTTP(c.Carrier) {
			want = codes.NotFound
		}
		if st.Code() != want && c12WellFormed(c.Name) {
			return o.failf("%s: unknown %q failed with %v, want %v", c.Carrier, c.Name, st.Code(), want)
		}
	}
	return o
}

// well-formed = "/service/method" with non-empty parts, no further slash, nothing a URL or
// path cleaner would touch; only for those is the exact error code asserted.
func c12WellFormed(n string) bool {
	if !strings.HasPrefix(n, "/") {
		return false
	}
	parts := strings.Split(n[1:], "/")
	if len(parts) != 2 || parts[0] == "" || parts[1] == "" {
		return false
	}
	for _, p := range parts {
		if p == "." || p == ".." {
			return false
		}
	}
	return !strings.ContainsAny(n, "?#% ")
}

func btoi(b bool) int {
	if b {
		return 1
	}
	return 0
}

var c12SvcNames = []string{"a.b.Svc", "a.b.Svc2", "x.Y", "a.b"}
var c12MethodNames = []string{"M", "Get", "GetAll", "m", "M2", "Svc"}

// c12NthSlash replaces the i-th '/' of s (0-based) by repl; a repl that ends in '/' in front of
// nothing (the last slash of a base without trailing slash cannot occur: every '/' of such a base is
// followed by a segment) keeps the path absolute.
func c12NthSlash(s string, i int, repl string) string {
	n := 0
	for k := 0; k < len(s); k++ {
		if s[k] == '/' {
			if n == i {
				return s[:k] + repl + s[k+1:]
			}
			n++
		}
	}
	return s
}

func genC12(t *rapid.T) c12Case {
	c := c12Case{Carrier: rapid.SampledFrom(sutCarriers).Draw(t, "carrier"), Base: "/"}
	ns := rapid.IntRange(1, 3).Draw(t, "nsvc")
	names := rapid.Permutation(c12SvcNames).Draw(t, "svcnames")[:ns]
	var all []string
	isUnary := map[string]bool{}
	for _, n := range names {
		ms := rapid.Permutation(c12MethodNames).Draw(t, "methods")
		nu := rapid.IntRange(1, 3).Draw(t, "nunary")
		nst := rapid.IntRange(1, 3).Draw(t, "nstream")
		s := c12Svc{Name: n, Unary: append([]string{}, ms[:nu]...), Streams: append([]string{}, ms[nu:nu+nst]...)}
		// (declaration order is whatever the permutation gave: method tables are not sorted)
		c.Services = append(c.Services, s)
		for _, m := range s.Unary {
			all = append(all, "/"+n+"/"+m)
			isUnary["/"+n+"/"+m] = true
		}
		for _, m := range s.Streams {
			all = append(all, "/"+n+"/"+m)
		}
	}
	if isHTTP(c.Carrier) {
		nseg := rapid.IntRange(0, 3).Draw(t, "nseg")
		b := ""
		for i := 0; i < nseg; i++ {
			b += "/" + rapid.OneOf(rapid.StringMatching(`[A-Za-z0-9._~+:@!-]{1,6}`), rapid.SampledFrom([]string{"é", "a.b", "~x", "a+b:c", "rpc", "api", "v1"})).Filter(func(s string) bool { return s != "." && s != ".." }).Draw(t, "seg")
		}
		if b == "" || rapid.Bool().Draw(t, "trailing") {
			b += "/"
		}
		// the same base path in a non-canonical spelling (both sides get the same string; the
		// server cleans it when it registers, so the client has to arrive at the same place)
		switch rapid.IntRange(0, 9).Draw(t, "basenoise") {
		case 0:
			i := rapid.IntRange(0, strings.Count(b, "/")-1).Draw(t, "noiseat")
			b = c12NthSlash(b, i, "//")
		case 1:
			i := rapid.IntRange(0, strings.Count(b, "/")-1).Draw(t, "noiseat")
			b = c12NthSlash(b, i, "/./")
		case 2:
			i := rapid.IntRange(0, strings.Count(b, "/")-1).Draw(t, "noiseat")
			b = c12NthSlash(b, i, "/zz/../")
		case 3:
			b += "/"
		}
		c.Base = b
	}
	reg := rapid.SampledFrom(all).Draw(t, "target")
	c.ViaStream = !isUnary[reg]
	svcPart := reg[1:strings.LastIndex(reg, "/")]
	mPart := reg[strings.LastIndex(reg, "/")+1:]
	mut := rapid.IntRange(0, 24).Draw(t, "mutation")
	c.Origin = "registered"
	c.Name = reg
	switch mut {
	case 0, 1, 2, 3, 4, 5:
	case 6:
		c.Name, c.Origin = reg[1:], "no-leading-slash"
	case 7:
		c.Name, c.Origin = rapid.SampledFrom([]string{"foo", mPart, svcPart, "a.b.Svc.M"}).Draw(t, "noslash"), "no-slash-at-all"
	case 8:
		c.Name, c.Origin = "", "empty"
	case 9:
		c.Name, c.Origin = rapid.SampledFrom([]string{"/", "/" + svcPart, "/" + svcPart + "/", "//", "/" + mPart}).Draw(t, "short"), "missing-part"
	case 10:
		c.Name, c.Origin = rapid.SampledFrom([]string{reg + "/x", "/" + svcPart + "/x/" + mPart, "/" + svcPart + "/" + mPart + "/" + mPart, "/" + svcPart + "/a/b/" + mPart, "/x/" + svcPart + "/" + mPart}).Draw(t, "extraseg"), "extra-segment"
	case 11:
		c.Name, c.Origin = reg[:len(reg)-1], "prefix"
	case 12:
		c.Name, c.Origin = reg+rapid.SampledFrom([]string{"x", "2", "_"}).Draw(t, "sfx"), "suffix"
	case 13:
		other := rapid.SampledFrom(c12SvcNames).Draw(t, "othersvc")
		c.Name, c.Origin = "/"+other+"/"+mPart, "other-service"
	case 14:
		c.ViaStream, c.Origin = !c.ViaStream, "kind-mismatch"
	case 15:
		c.Name, c.Origin = rapid.SampledFrom([]string{strings.ToUpper(reg), strings.ToLower(reg), "/" + svcPart + "/" + strings.ToLower(mPart)}).Draw(t, "case"), "case-change"
	case 16:
		c.Name, c.Origin = "/"+reg+"/", "unclean"
		c.Name = rapid.SampledFrom([]string{reg + "/", "/" + reg, strings.Replace(reg[1:], "/", "//", 1), "/./" + reg[1:], "/x/../" + reg[1:], "/" + svcPart + "/./" + mPart, "/" + svcPart + "/x/../" + mPart, reg + "/.", reg + "/x/.."}).Draw(t, "unclean")
	case 17:
		c.Name, c.Origin = rapid.SampledFrom([]string{reg + "?x=1", reg + "#f", "/" + svcPart + "%2F" + mPart, reg + " x", reg + "%20", "/" + svcPart + "/" + mPart + "?", reg + "%"}).Draw(t, "esc"), "needs-escaping"
	case 18:
		c.Name, c.Origin = "/"+rapid.StringMatching(`[a-zA-Z.]{1,8}`).Draw(t, "rs")+"/"+rapid.StringMatching(`[a-zA-Z]{1,6}`).Draw(t, "rm"), "random-well-formed"
	case 19:
		c.Name, c.Origin = rapid.StringMatching(`[/a-zA-Z.]{0,12}`).Draw(t, "rnd"), "random"
	case 20:
		// a registered name with bytes in it that are not valid UTF-8 (a stray 0xff, a truncated or overlong sequence):
		// not a registered name
		junk := rapid.SampledFrom([]string{"\xff", "\xfe", "\xc3", "\xc0\xaf", "\xf5", "\xe2\x82"}).Draw(t, "junk")
		at := rapid.SampledFrom([]int{0, 1, 1 + len(svcPart), 2 + len(svcPart), len(reg)}).Draw(t, "junkat")
		c.NameBytes = []byte(reg[:at] + junk + reg[at:])
		c.Name, c.Origin = string(c.NameBytes), "invalid-utf8-inside-a-registered-name"
	default:
		c.Name = rapid.SampledFrom(all).Draw(t, "other-registered")
		c.ViaStream = !isUnary[c.Name]
	}
	c.Creds = rapid.IntRange(0, 4).Draw(t, "creds") == 0
	c.Decorated = rapid.IntRange(0, 3).Draw(t, "decorated") == 0
	c.DescHandler = rapid.Bool().Draw(t, "deschandler")
	c.StreamFlags = rapid.SampledFrom([]int{0, 0, 1, 2}).Draw(t, "streamflags")
	c.Empty = rapid.IntRange(0, 14).Draw(t, "empty") == 0
	c.Late = rapid.IntRange(0, 4).Draw(t, "late") == 0
	if c.Late || rapid.IntRange(0, 2).Draw(t, "pre") == 0 {
		np := rapid.IntRange(1, 3).Draw(t, "npre")
		for i := 0; i < np; i++ {
			// the same or another registered name, possibly through the wrong kind of call, or a near miss
			pn := rapid.SampledFrom(all).Draw(t, "prename")
			if rapid.Bool().Draw(t, "presame") {
				pn = reg
			}
			pc := c12Call{Name: pn, ViaStream: !isUnary[pn]}
			switch rapid.IntRange(0, 3).Draw(t, "prekind") {
			case 0:
				pc.ViaStream = !pc.ViaStream
			case 1:
				pc.Name += "x"
			}
			c.Pre = append(c.Pre, pc)
		}
	}
	return c
}

func init() { registerReplay("C12", propC12) }

const c12Rule = "rapid-generated: 1..3 services (1..3 unary + 1..3 streaming methods, per-method counters) on inproc, httpgrpc.Server and HandleServices x absolute base path of 0..3 segments over [A-Za-z0-9._~+:@!-] and non-ASCII, with/without trailing slash (same on both sides) x called name = registered, or a mutation (no leading slash, no slash, empty, missing part, extra segment, prefix, suffix, other service, kind mismatch, case change, names path.Clean rewrites, characters needing escaping, random); " +
	"oracle: registered name => exactly that counter +1 and success; any other name => no counter moves, non-OK status error (Unimplemented in-process / NotFound over HTTP for well-formed unknown names), never a panic; a registered name without its leading slash may run that handler (tolerated by both transports); " +
	"also generated since the seeded rounds: up to 3 preceding calls on the same channel (any name, any kind), registration of the last service after those calls, per-RPC credentials on the judged call, descriptions decorated by grpchan.InterceptServer, the per-method HTTP server form, a server / channel with nothing registered at all, streaming methods declared client- or server-streaming only while the caller uses a generic bidi descriptor; " +
	"non-trivial = unregistered/malformed name or base path other than /; distinct by case hash"

// FuzzMethodName: coverage-guided search over method-name strings (any bytes) against a fixed set of
// registered services on the three carriers.
func FuzzMethodName(f *testing.F) {
	for _, n := range []string{"/a.b.Svc/M", "a.b.Svc/M", "/a.b.Svc/Get", "/a.b.Svc/S", "", "/", "//", "/a.b.Svc/", "/a.b.Svc/M/", "/a.b.Svc/./M", "/a.b.Svc/../a.b.Svc/M",
		"/a.b.Svc%2FM", "/a.b.Svc/M?x", "/a.b.Svc/M#f", "/x.Y/S", "/a.b.Svc/M\x00", "\x7f/a.b.Svc/M", "/a.b.Svc/\u00e9", "/a.b.Svc/M%", "http://other/a.b.Svc/M", "//other/a.b.Svc/M", "/A.B.SVC/M", ":", "/a.b.Svc\\M"} {
		f.Add(uint8(0), n, false)
		f.Add(uint8(1), n, true)
		f.Add(uint8(2), n, false)
	}
	f.Fuzz(func(t *testing.T, sel uint8, name string, viaStream bool) {
		c := c12Case{Carrier: sutCarriers[int(sel)%len(sutCarriers)], Base: []string{"/", "/api/v1", "/x/"}[int(sel>>2)%3], Name: name, ViaStream: viaStream, Origin: "native-fuzz",
			Services: []c12Svc{{Name: "a.b.Svc", Unary: []string{"Get", "M"}, Streams: []string{"S"}}, {Name: "x.Y", Unary: []string{"M"}, Streams: []string{"S", "T"}}}}
		if !isHTTP(c.Carrier) {
			c.Base = "/"
		}
		if o := propC12(c); o.Fail != "" {
			t.Fatalf("C12: %s", o.Fail)
		}
	})
}

func TestC12(t *testing.T) {
	runProp(t, "C12", c12Rule, genC12, propC12)
}
