package harness

// C15 — registry: exclusive type-checked registration, faithful lookup and service info.

import (
	"context"
	"fmt"
	"net/http"
	"net/http/httptest"
	"reflect"
	"sort"
	"strings"
	"testing"
	"time"

	"google.golang.org/grpc"
	"google.golang.org/grpc/codes"
	"google.golang.org/grpc/status"
	"pgregory.net/rapid"

	"github.com/fullstorydev/grpchan"
	pb "github.com/fullstorydev/grpchan/grpchantesting"
	"github.com/fullstorydev/grpchan/httpgrpc"
	"github.com/fullstorydev/grpchan/inprocgrpc"
)

type c15Stream struct {
	Name   string
	CS, SS bool
}

type c15Op struct {
	Kind        string      // reg | query | foreach | info
	Name        string      `json:",omitempty"` // service name (reg, query)
	Unary       []string    `json:",omitempty"`
	Streams     []c15Stream `json:",omitempty"`
	Meta        string      `json:",omitempty"` // "", "str:<s>", "int", "nil"
	Typed       bool        `json:",omitempty"` // HandlerType is a real interface with a method
	BadHandler  bool        `json:",omitempty"` // handler does not implement HandlerType (only with Typed)
	Iface2      bool        `json:",omitempty"` // with Typed: the service's HandlerType is a second interface, which the usual (valid elsewhere) handler type does not implement
	Wrapped     bool        `json:",omitempty"` // the registration goes through grpchan.WithInterceptor(reg, pass-through interceptors)
	SameHandler bool        `json:",omitempty"` // a duplicate registration passes the handler value that is already registered
	NilHandler  bool        `json:",omitempty"` // handler is a nil pointer of the right type (stateless implementations; grpc.Server accepts it)
	NoProbe     bool        `json:",omitempty"` // the description is left exactly as drawn (no probe method added; it may have no methods at all)
}

type c15Case struct {
	Target string // map | inproc | httpserver
	Ops    []c15Op
}

type c15Iface interface{ VerifMarker() }
type c15Good struct{ id int }

func (*c15Good) VerifMarker() {}

// a second service interface and its implementation
type c15Iface2 interface{ VerifMarker2() }
type c15Good2 struct{ id int }

func (*c15Good2) VerifMarker2() {}

type c15Bad struct{ id int }

// c15BadSig has a method of the right name but the wrong signature.
type c15BadSig struct{ id int }

func (*c15BadSig) VerifMarker(int) error { return nil }

func c15Meta(m string) interface{} {
	switch {
	case m == "":
		return nil
	case m == "int":
		return 42
	default:
		return m
	}
}

func (op *c15Op) desc() *grpc.ServiceDesc {
	d := &grpc.ServiceDesc{ServiceName: op.Name, Metadata: c15Meta(op.Meta)}
	if op.Typed && op.Iface2 {
		d.HandlerType = (*c15Iface2)(nil)
	} else if op.Typed {
		d.HandlerType = (*c15Iface)(nil)
	} else {
		d.HandlerType = (*svcIface)(nil)
	}
	for _, m := range op.Unary {
		d.Methods = append(d.Methods, grpc.MethodDesc{MethodName: m, Handler: unaryHandler})
	}
	for _, s := range op.Streams {
		d.Streams = append(d.Streams, grpc.StreamDesc{StreamName: s.Name, ClientStreams: s.CS, ServerStreams: s.SS, Handler: streamHandler(kBidi)})
	}
	if op.NoProbe {
		return d
	}
	// most services can be probed by a call: a method that answers whatever the handler object is
	d.Methods = append(d.Methods, grpc.MethodDesc{MethodName: c15Probe, Handler: func(srv interface{}, ctx context.Context, dec func(interface{}) error, _ grpc.UnaryServerInterceptor) (interface{}, error) {
		if err := dec(new(pb.Message)); err != nil {
			return nil, err
		}
		return &pb.Message{Count: 42}, nil
	}})
	d.Streams = append(d.Streams, grpc.StreamDesc{StreamName: c15ProbeStream, ClientStreams: true, ServerStreams: true, Handler: func(srv interface{}, stream grpc.ServerStream) error {
		for stream.RecvMsg(new(pb.Message)) == nil {
		}
		return stream.SendMsg(&pb.Message{Count: 43})
	}})
	return d
}

const c15Probe = "VerifProbe"
const c15ProbeStream = "VerifProbeStream"

type c15Entry struct {
	desc    *grpc.ServiceDesc
	handler interface{}
	wrapped bool // registered through WithInterceptor: the registry holds a decorated copy of desc
}

// c15SameDesc: the registry's description is the registered one, or (wrapped) a decorated copy that says the same.
func c15SameDesc(got *grpc.ServiceDesc, e c15Entry) bool {
	if !e.wrapped {
		return got == e.desc
	}
	if got == nil || got.ServiceName != e.desc.ServiceName || got.HandlerType != e.desc.HandlerType || got.Metadata != e.desc.Metadata ||
		len(got.Methods) != len(e.desc.Methods) || len(got.Streams) != len(e.desc.Streams) {
		return false
	}
	for i := range got.Methods {
		if got.Methods[i].MethodName != e.desc.Methods[i].MethodName || got.Methods[i].Handler == nil {
			return false
		}
	}
	for i := range got.Streams {
		gs, es := got.Streams[i], e.desc.Streams[i]
		if gs.StreamName != es.StreamName || gs.ClientStreams != es.ClientStreams || gs.ServerStreams != es.ServerStreams || gs.Handler == nil {
			return false
		}
	}
	return true
}

func methodInfoKey(mi grpc.MethodInfo) string {
	return fmt.Sprintf("%s|%v|%v", mi.Name, mi.IsClientStream, mi.IsServerStream)
}

func sameServiceInfo(a, b map[string]grpc.ServiceInfo) string {
	if len(a) != len(b) {
		return fmt.Sprintf("%d services vs %d", len(a), len(b))
	}
	for name, ia := range a {
		ib, ok := b[name]
		if !ok {
			return fmt.Sprintf("service %q missing", name)
		}
		if !reflect.DeepEqual(ia.Metadata, ib.Metadata) {
			return fmt.Sprintf("service %q metadata %#v vs %#v", name, ia.Metadata, ib.Metadata)
		}
		var ka, kb []string
		for _, m := range ia.Methods {
			ka = append(ka, methodInfoKey(m))
		}
		for _, m := range ib.Methods {
			kb = append(kb, methodInfoKey(m))
		}
		sort.Strings(ka)
		sort.Strings(kb)
		if !reflect.DeepEqual(ka, kb) {
			return fmt.Sprintf("service %q methods %v vs %v", name, ka, kb)
		}
	}
	return ""
}

// propC15: registry operations are plain function calls; one that does not come back (a lock never released) is a
// failure of the history, not of the harness.
func propC15(c c15Case) *Outcome {
	var o *Outcome
	if stall := guardFor(5*time.Second, "the history of registry operations", func() { o = propC15History(c) }); stall != "" {
		return (&Outcome{NonTrivial: true}).failf("%s: %d operations (%s): %s", c.Target, len(c.Ops), c15OpsString(c), stall)
	}
	return o
}

func c15OpsString(c c15Case) string {
	var parts []string
	for _, op := range c.Ops {
		parts = append(parts, op.Kind)
	}
	return strings.Join(parts, ",")
}

func propC15History(c c15Case) *Outcome {
	o := &Outcome{}
	o.class("target=%s", c.Target)
	var hm grpchan.HandlerMap
	var reg grpc.ServiceRegistrar
	var info func() map[string]grpc.ServiceInfo
	switch c.Target {
	case "map":
		hm = grpchan.HandlerMap{}
		reg, info = hm, hm.GetServiceInfo
	case "inproc":
		ch := &inprocgrpc.Channel{}
		reg, info = ch, ch.GetServiceInfo
	default:
		s := httpgrpc.NewServer()
		reg, info = s, s.GetServiceInfo
	}
	var callConn grpc.ClientConnInterface
	switch t := reg.(type) {
	case *inprocgrpc.Channel:
		callConn = t
	case *httpgrpc.Server:
		callConn = &httpgrpc.Channel{BaseURL: baseURL, Transport: rtFunc(func(r *http.Request) (*http.Response, error) {
			w := httptest.NewRecorder()
			t.ServeHTTP(w, r)
			return w.Result(), nil
		})}
	}
	model := map[string]c15Entry{}
	noProbe := map[string]bool{}
	ref := grpc.NewServer() // never served: only its registry is consulted
	refused := 0
	check := func(step int) string {
		if hm != nil {
			// full lookup agreement over every name that ever appeared, plus near misses
			names := map[string]bool{}
			for _, op := range c.Ops {
				if op.Name != "" {
					names[op.Name], names[op.Name+"x"], names[op.Name[:len(op.Name)-1]] = true, true, true
					names["."+op.Name], names[op.Name+"."], names["/"+op.Name] = true, true, true
				}
			}
			names[""] = true
			for n := range names {
				d, h := hm.QueryService(n)
				e, ok := model[n]
				if !ok {
					if d != nil || h != nil {
						return fmt.Sprintf("step %d: QueryService(%q) = (%p,%v) for a name never registered", step, n, d, h)
					}
					continue
				}
				if !c15SameDesc(d, e) || h != e.handler {
					return fmt.Sprintf("step %d: QueryService(%q) returned a different descriptor/handler than registered", step, n)
				}
			}
			seen := map[string]int{}
			hm.ForEach(func(d *grpc.ServiceDesc, h interface{}) {
				seen[d.ServiceName]++
				if e, ok := model[d.ServiceName]; !ok || !c15SameDesc(d, e) || e.handler != h {
					seen["!mismatch:"+d.ServiceName]++
				}
			})
			if len(seen) != len(model) {
				return fmt.Sprintf("step %d: ForEach visited %v, model has %d services", step, seen, len(model))
			}
			for n, k := range seen {
				if k != 1 || n[0] == '!' {
					return fmt.Sprintf("step %d: ForEach visited %v", step, seen)
				}
			}
		}
		got := info()
		if got == nil {
			got = map[string]grpc.ServiceInfo{}
		}
		if why := sameServiceInfo(got, ref.GetServiceInfo()); why != "" {
			return fmt.Sprintf("step %d: GetServiceInfo differs from grpc.Server's for the same registrations: %s", step, why)
		}
		// the answer is the caller's to keep and to edit (a listing that hides internal services, say): doing so
		// changes nothing about what the registry reports next time
		for name, si := range got {
			for i := range si.Methods {
				si.Methods[i].Name = "scribbled"
			}
			si.Metadata = "scribbled"
			got[name] = si
			if len(got) > 1 || step%2 == 0 {
				delete(got, name)
			}
		}
		got["verif.Injected"] = grpc.ServiceInfo{}
		again := info()
		if again == nil {
			again = map[string]grpc.ServiceInfo{}
		}
		if why := sameServiceInfo(again, ref.GetServiceInfo()); why != "" {
			return fmt.Sprintf("step %d: GetServiceInfo asked a second time, after the caller edited the first answer, differs from grpc.Server's: %s", step, why)
		}
		return ""
	}
	for i, op := range c.Ops {
		o.class("op=%s", op.Kind)
		if op.Kind == "call" {
			// looking a service up by calling it: registered (by now) => its handler answers, otherwise a clean refusal
			if callConn == nil {
				continue
			}
			out := new(pb.Message)
			_, registered := model[op.Name]
			registered = registered && !noProbe[op.Name]
			if i%2 == 1 {
				// through a stream, with a descriptor of the caller's own that (like a generated stub's) names the
				// method and carries a handler: what runs is what was registered under the name, if anything
				decoyRan := false
				cd := &grpc.StreamDesc{StreamName: c15ProbeStream, ClientStreams: true, ServerStreams: true, Handler: func(interface{}, grpc.ServerStream) error {
					decoyRan = true
					return nil
				}}
				ctx, cancel := context.WithCancel(context.Background())
				cs, err := callConn.NewStream(ctx, cd, "/"+op.Name+"/"+c15ProbeStream)
				if err == nil {
					cs.CloseSend()
					err = cs.RecvMsg(out)
					if err == nil {
						for cs.RecvMsg(new(pb.Message)) == nil {
						}
					}
				}
				cancel()
				if decoyRan {
					return o.failf("%s: step %d: a stream call to %q ran the handler of the caller's own descriptor", c.Target, i, op.Name)
				}
				if registered && (err != nil || out.Count != 43) {
					return o.failf("%s: step %d: service %q is registered, a stream call to it returned %v (response %v)", c.Target, i, op.Name, err, out)
				}
				if !registered && err == nil {
					return o.failf("%s: step %d: service %q has no such stream method registered, a call to it succeeded", c.Target, i, op.Name)
				}
				continue
			}
			err := callConn.Invoke(context.Background(), "/"+op.Name+"/"+c15Probe, &pb.Message{}, out)
			if registered && (err != nil || out.Count != 42) {
				return o.failf("%s: step %d: service %q is registered, a call to it returned %v (response %v)", c.Target, i, op.Name, err, out)
			}
			if !registered && (err == nil || status.Code(err) == codes.OK) {
				return o.failf("%s: step %d: service %q is not registered, a call to it returned %v", c.Target, i, op.Name, err)
			}
			continue
		}
		if op.Kind != "reg" {
			// query / foreach / info are all covered by the invariant below
			if why := check(i); why != "" {
				return o.failf("%s: %s", c.Target, why)
			}
			continue
		}
		d := op.desc()
		var h interface{}
		switch {
		case op.Typed && op.Iface2 && op.BadHandler:
			h = &c15Good{id: i} // perfectly good for the other interface (and possibly approved for it earlier), not for this one
		case op.Typed && op.Iface2:
			h = &c15Good2{id: i}
		case op.Typed && op.BadHandler && i%3 == 2:
			h = c15Good{id: i} // a value where only the pointer type has the methods: does not implement the interface
		case op.Typed && op.BadHandler && i%3 == 1:
			h = &c15BadSig{id: i}
		case op.Typed && op.BadHandler:
			h = &c15Bad{id: i}
		case op.NilHandler:
			h = (*c15Good)(nil)
			o.class("typed-nil-handler")
		default:
			h = &c15Good{id: i}
		}
		prevEntry, dup := model[op.Name]
		if dup && op.SameHandler {
			// the very handler value that is registered already (e.g. registered plainly, then once more
			// through an intercepting view): still a second registration under a taken name
			h = prevEntry.handler
			o.class("duplicate-with-identical-handler")
		}
		mustRefuse := dup || (op.Typed && op.BadHandler)
		target := reg
		if op.Wrapped {
			o.class("registered-through-WithInterceptor")
			target = grpchan.WithInterceptor(reg,
				func(ctx context.Context, req interface{}, _ *grpc.UnaryServerInfo, h grpc.UnaryHandler) (interface{}, error) {
					return h(ctx, req)
				},
				func(srv interface{}, ss grpc.ServerStream, _ *grpc.StreamServerInfo, h grpc.StreamHandler) error {
					return h(srv, ss)
				})
		}
		panicked := func() (p interface{}) {
			defer func() { p = recover() }()
			target.RegisterService(d, h)
			return nil
		}()
		if mustRefuse {
			refused++
			o.class("refused/dup=%v/illtyped=%v", dup, op.Typed && op.BadHandler)
			if panicked == nil {
				return o.failf("%s: step %d: registration of %q (duplicate=%v, ill-typed=%v) was accepted", c.Target, i, op.Name, dup, op.Typed && op.BadHandler)
			}
		} else {
			if panicked != nil {
				return o.failf("%s: step %d: valid registration of %q panicked: %v", c.Target, i, op.Name, panicked)
			}
			model[op.Name] = c15Entry{d, h, op.Wrapped}
			noProbe[op.Name] = op.NoProbe
			ref.RegisterService(d, h)
		}
		if why := check(i); why != "" {
			return o.failf("%s: %s", c.Target, why)
		}
	}
	o.NonTrivial = len(model) >= 2 || refused > 0
	return o
}

var c15Names = []string{"a.S", "a.S2", "b.T", "a.Sx", "c"}
var c15Methods = []string{"Get", "Put", "List", "Watch", "get", "Ping", "Stat", "Do", "Run", "Go"}

func genC15(t *rapid.T) c15Case {
	c := c15Case{Target: rapid.SampledFrom([]string{"map", "map", "inproc", "httpserver"}).Draw(t, "target")}
	n := rapid.IntRange(1, 12).Draw(t, "nops")
	for i := 0; i < n; i++ {
		op := c15Op{Kind: rapid.SampledFrom([]string{"reg", "reg", "reg", "query", "foreach", "info", "call"}).Draw(t, "kind")}
		if op.Kind == "call" {
			op.Name = rapid.SampledFrom(c15Names).Draw(t, "callname")
		}
		if op.Kind == "reg" {
			op.Name = rapid.SampledFrom(c15Names).Draw(t, "name")
			ms := rapid.Permutation(c15Methods).Draw(t, "methods")
			nu := rapid.IntRange(0, 5).Draw(t, "nunary")
			ns := rapid.IntRange(0, 5).Draw(t, "nstreams")
			op.Unary = append([]string{}, ms[:nu]...)
			for _, m := range ms[nu : nu+ns] {
				op.Streams = append(op.Streams, c15Stream{Name: m, CS: rapid.Bool().Draw(t, "cs"), SS: rapid.Bool().Draw(t, "ss")})
			}
			op.Meta = rapid.SampledFrom([]string{"", "int", "file.proto", "x/y.proto"}).Draw(t, "meta")
			op.Typed = rapid.Bool().Draw(t, "typed")
			op.BadHandler = op.Typed && rapid.IntRange(0, 3).Draw(t, "bad") == 0
			op.Iface2 = op.Typed && rapid.IntRange(0, 2).Draw(t, "iface2") == 0
			op.NilHandler = !op.BadHandler && !op.Iface2 && rapid.IntRange(0, 5).Draw(t, "nilhandler") == 0
			op.Wrapped = rapid.IntRange(0, 3).Draw(t, "wrapped") == 0
			op.SameHandler = rapid.Bool().Draw(t, "samehandler")
			op.NoProbe = rapid.IntRange(0, 2).Draw(t, "noprobe") == 0
		}
		c.Ops = append(c.Ops, op)
	}
	return c
}

func init() { registerReplay("C15", propC15) }

const c15Rule = "rapid-generated histories (1..12 ops: register valid / duplicate name / handler not implementing HandlerType, query, iterate, info - whose answer the caller then edits -, a call to a probe method of a named service, before and after its registration) over HandlerMap, inprocgrpc.Channel and httpgrpc.Server with generated descriptors (0..5 unary + 0..5 streaming methods, all flag combinations, string/int/nil metadata); " +
	"invariant after every step: QueryService agrees with a model map on every name seen and on near misses (identical pointers or nil,nil), ForEach visits the model exactly once each, GetServiceInfo equals (methods as multisets) what a fresh grpc.Server given the same valid registrations reports; refused registrations panic and change nothing; " +
	"also generated since the seeded rounds: handlers with the right method name and a wrong signature, near-miss names (.X, X., /X), typed-nil handlers, a second service interface (a handler type valid for one service offered for the other), registration through grpchan.WithInterceptor, handler values whose pointer type alone implements the interface; " +
	"non-trivial = history ending with >=2 services or containing a refused registration; distinct by case hash"

func TestC15(t *testing.T) {
	runProp(t, "C15", c15Rule, genC15, propC15)
}
