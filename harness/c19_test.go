package harness

// C19 — generated stubs bind each method to its own path and stream descriptor.

import (
	"bytes"
	"fmt"
	"go/ast"
	"go/format"
	"go/importer"
	"go/parser"
	"go/token"
	"go/types"
	"os"
	"os/exec"
	"path"
	"path/filepath"
	"strconv"
	"strings"
	"sync"
	"testing"

	"google.golang.org/protobuf/proto"
	"google.golang.org/protobuf/reflect/protodesc"
	"google.golang.org/protobuf/types/descriptorpb"
	"google.golang.org/protobuf/types/known/anypb"
	"google.golang.org/protobuf/types/known/emptypb"
	"google.golang.org/protobuf/types/pluginpb"
	"pgregory.net/rapid"

	pb "github.com/fullstorydev/grpchan/grpchantesting"
)

type c19Method struct {
	Name   string
	CS, SS bool
	In     string // local | dep | empty
	Out    string
}

type c19Service struct {
	Name    string
	Methods []c19Method
}

type c19Case struct {
	Mode      string // generate | regenerate
	FileName  string
	Package   string
	GoPackage string
	Services  []c19Service
	Params    []string
	// AlsoDep: the messages-only dependency file is named for generation too (protoc dir/*.proto), before
	// ("first") or after ("last") the file under test; it has no services, so it adds no output
	AlsoDep string `json:",omitempty"`
	// Twin: a second file with services is named for generation in the same request ("first" / "last"): it lives in
	// another Go package (another import path) that happens to have the same package name, and declares a service
	// with the same name as the first service of the file under test. Each file gets its own complete output.
	Twin string `json:",omitempty"`
}

var (
	pluginOnce sync.Once
	pluginPath string
	pluginErr  error
)

func pluginBinary() (string, error) {
	pluginOnce.Do(func() {
		if p := os.Getenv("VERIF_PLUGIN"); p != "" {
			if _, err := os.Stat(p); err == nil {
				pluginPath = p
				return
			}
		}
		dir, err := os.MkdirTemp("", "verif-plugin")
		if err != nil {
			pluginErr = err
			return
		}
		pluginPath = filepath.Join(dir, "protoc-gen-grpchan")
		cmd := exec.Command("go", "build", "-o", pluginPath, "github.com/fullstorydev/grpchan/cmd/protoc-gen-grpchan")
		if out, err := cmd.CombinedOutput(); err != nil {
			pluginErr = fmt.Errorf("building plugin: %v\n%s", err, out)
		}
	})
	return pluginPath, pluginErr
}

func runPlugin(req *pluginpb.CodeGeneratorRequest) (*pluginpb.CodeGeneratorResponse, string, error) {
	bin, err := pluginBinary()
	if err != nil {
		return nil, "", err
	}
	in, err := proto.Marshal(req)
	if err != nil {
		return nil, "", err
	}
	cmd := exec.Command(bin)
	cmd.Stdin = bytes.NewReader(in)
	var stdout, stderr bytes.Buffer
	cmd.Stdout, cmd.Stderr = &stdout, &stderr
	runErr := cmd.Run()
	resp := new(pluginpb.CodeGeneratorResponse)
	if uerr := proto.Unmarshal(stdout.Bytes(), resp); uerr != nil || (runErr != nil && stdout.Len() == 0) {
		return nil, stderr.String(), fmt.Errorf("plugin run: %v / %v", runErr, uerr)
	}
	return resp, stderr.String(), nil
}

// camelCase: the documented protoc-gen-go algorithm.
func camelCase(s string) string {
	if s == "" {
		return ""
	}
	t := make([]byte, 0, 32)
	i := 0
	if s[0] == '_' {
		t = append(t, 'X')
		i++
	}
	lower := func(c byte) bool { return 'a' <= c && c <= 'z' }
	digit := func(c byte) bool { return '0' <= c && c <= '9' }
	for ; i < len(s); i++ {
		c := s[i]
		if c == '_' && i+1 < len(s) && lower(s[i+1]) {
			continue
		}
		if digit(c) {
			t = append(t, c)
			continue
		}
		if lower(c) {
			c ^= ' '
		}
		t = append(t, c)
		for i+1 < len(s) && lower(s[i+1]) {
			i++
			t = append(t, s[i])
		}
	}
	return string(t)
}

func unexport(s string) string {
	if s == "" {
		return s
	}
	return strings.ToLower(s[:1]) + s[1:]
}

const c19DepFile = "dep/dep.proto"

func c19DepProto() *descriptorpb.FileDescriptorProto {
	return &descriptorpb.FileDescriptorProto{
		Name: proto.String(c19DepFile), Package: proto.String("dep.pkg"), Syntax: proto.String("proto3"),
		Options:     &descriptorpb.FileOptions{GoPackage: proto.String("example.com/dep;deppb")},
		MessageType: []*descriptorpb.DescriptorProto{{Name: proto.String("Shared")}},
	}
}

func (c *c19Case) fileProto() *descriptorpb.FileDescriptorProto {
	fd := &descriptorpb.FileDescriptorProto{Name: proto.String(c.FileName), Syntax: proto.String("proto3"),
		Dependency: []string{c19DepFile, "google/protobuf/empty.proto"},
		// (Empty: a message of the file's own that shares its simple name with google.protobuf.Empty)
		MessageType: []*descriptorpb.DescriptorProto{{Name: proto.String("Req")}, {Name: proto.String("Resp")}, {Name: proto.String("Empty")}},
	}
	if c.Package != "" {
		fd.Package = proto.String(c.Package)
	}
	if c.GoPackage != "" {
		fd.Options = &descriptorpb.FileOptions{GoPackage: proto.String(c.GoPackage)}
	}
	typ := func(kind, local string) *string {
		switch kind {
		case "dep":
			return proto.String(".dep.pkg.Shared")
		case "empty":
			return proto.String(".google.protobuf.Empty")
		case "localempty":
			local = "Empty"
		}
		if c.Package == "" {
			return proto.String("." + local)
		}
		return proto.String("." + c.Package + "." + local)
	}
	for _, s := range c.Services {
		sd := &descriptorpb.ServiceDescriptorProto{Name: proto.String(s.Name)}
		for _, m := range s.Methods {
			md := &descriptorpb.MethodDescriptorProto{Name: proto.String(m.Name), InputType: typ(m.In, "Req"), OutputType: typ(m.Out, "Resp")}
			if m.CS {
				md.ClientStreaming = proto.Bool(true)
			}
			if m.SS {
				md.ServerStreaming = proto.Bool(true)
			}
			sd.Method = append(sd.Method, md)
		}
		fd.Service = append(fd.Service, sd)
	}
	return fd
}

// paramsValid models the documented option grammar.
func c19ParamsValid(params []string) (ok, legacyStubs, legacyDesc, sourceRel bool) {
	module := ""
	ok = true
	boolOf := func(vals []string) (bool, bool) {
		if len(vals) == 1 {
			return true, true
		}
		switch strings.ToLower(vals[1]) {
		case "true", "on", "yes", "1":
			return true, true
		case "false", "off", "no", "0":
			return false, true
		}
		return false, false
	}
	for _, p := range params {
		vals := strings.SplitN(p, "=", 2)
		switch vals[0] {
		case "debug":
			if _, v := boolOf(vals); !v {
				ok = false
			}
		case "legacy_stubs":
			b, v := boolOf(vals)
			if !v {
				ok = false
			}
			legacyStubs = b
		case "legacy_desc_names":
			b, v := boolOf(vals)
			if !v {
				ok = false
			}
			legacyDesc = b
		case "import_path":
			if len(vals) == 1 {
				ok = false
			}
		case "module":
			if len(vals) == 1 {
				ok = false
			} else {
				module = vals[1]
			}
		case "paths":
			if len(vals) == 1 {
				ok = false
			} else if vals[1] == "source_relative" {
				sourceRel = true
			} else if vals[1] == "import" {
				sourceRel = false
			} else {
				ok = false
			}
		default:
			if len(vals[0]) > 1 && vals[0][0] == 'M' {
				if len(vals) == 1 {
					ok = false
				}
			} else {
				ok = false
			}
		}
		if !ok {
			return
		}
	}
	if sourceRel && module != "" {
		ok = false
	}
	return
}

type stubCall struct {
	recv      string // receiver type of the enclosing method ("" for functions)
	fn        string // enclosing function/method name
	callee    string // Invoke | NewStream | RegisterService
	path      string
	descVar   string
	streamIdx int
	sends     bool // body also calls SendMsg
	closes    bool // body also calls CloseSend
}

func exprString(e ast.Expr) string {
	var b bytes.Buffer
	format.Node(&b, token.NewFileSet(), e)
	return b.String()
}

func analyseStubs(src string) (calls []stubCall, types []string, perr error) {
	fset := token.NewFileSet()
	f, err := parser.ParseFile(fset, "gen.go", src, parser.ParseComments)
	if err != nil {
		return nil, nil, err
	}
	for _, d := range f.Decls {
		switch d := d.(type) {
		case *ast.GenDecl:
			for _, s := range d.Specs {
				if ts, ok := s.(*ast.TypeSpec); ok {
					types = append(types, ts.Name.Name)
				}
			}
		case *ast.FuncDecl:
			recv := ""
			if d.Recv != nil && len(d.Recv.List) == 1 {
				recv = strings.TrimPrefix(exprString(d.Recv.List[0].Type), "*")
			}
			var found []stubCall
			sends, closes := false, false
			ast.Inspect(d.Body, func(n ast.Node) bool {
				ce, ok := n.(*ast.CallExpr)
				if !ok {
					return true
				}
				sel, ok := ce.Fun.(*ast.SelectorExpr)
				if !ok {
					return true
				}
				switch sel.Sel.Name {
				case "SendMsg":
					sends = true
				case "CloseSend":
					closes = true
				case "Invoke":
					sc := stubCall{recv: recv, fn: d.Name.Name, callee: "Invoke", streamIdx: -1}
					if len(ce.Args) >= 2 {
						if bl, ok := ce.Args[1].(*ast.BasicLit); ok {
							sc.path, _ = strconv.Unquote(bl.Value)
						}
					}
					found = append(found, sc)
				case "NewStream":
					sc := stubCall{recv: recv, fn: d.Name.Name, callee: "NewStream", streamIdx: -1}
					if len(ce.Args) >= 3 {
						if bl, ok := ce.Args[2].(*ast.BasicLit); ok {
							sc.path, _ = strconv.Unquote(bl.Value)
						}
						if ue, ok := ce.Args[1].(*ast.UnaryExpr); ok && ue.Op == token.AND {
							if ie, ok := ue.X.(*ast.IndexExpr); ok {
								if se, ok := ie.X.(*ast.SelectorExpr); ok && se.Sel.Name == "Streams" {
									sc.descVar = exprString(se.X)
								}
								if bl, ok := ie.Index.(*ast.BasicLit); ok {
									sc.streamIdx, _ = strconv.Atoi(bl.Value)
								}
							}
						}
					}
					found = append(found, sc)
				case "RegisterService":
					sc := stubCall{recv: recv, fn: d.Name.Name, callee: "RegisterService", streamIdx: -1}
					if len(ce.Args) == 2 {
						if ue, ok := ce.Args[0].(*ast.UnaryExpr); ok && ue.Op == token.AND {
							sc.descVar = exprString(ue.X)
						}
						sc.path = exprString(ce.Args[1])
					}
					found = append(found, sc)
				}
				return true
			})
			for i := range found {
				found[i].sends, found[i].closes = sends, closes
			}
			calls = append(calls, found...)
		}
	}
	return calls, types, nil
}

// c19GoPkg interprets a go_package-style string the way protoc-gen-go does: "path;name", "path" (name is
// the last element), or nothing (directory of the source file, name from the proto package or file name).
func c19GoPkg(spec, fileName, protoPkg string) (pkgPath, pkgName string) {
	switch {
	case spec == "":
		pkgPath = path.Dir(fileName)
		pkgName = protoPkg
		if pkgName == "" {
			pkgName = strings.TrimSuffix(path.Base(fileName), path.Ext(fileName))
		}
	case strings.Contains(spec, ";"):
		parts := strings.Split(spec, ";")
		pkgPath, pkgName = parts[0], parts[1]
	default:
		pkgName = path.Base(spec)
		if strings.Contains(spec, "/") {
			pkgPath = spec
		} else {
			pkgPath = path.Dir(fileName)
		}
	}
	var b strings.Builder
	for i, ch := range pkgName {
		switch {
		case ch >= '0' && ch <= '9':
			if i == 0 {
				b.WriteByte('_')
			}
			b.WriteRune(ch)
		case ch >= 'a' && ch <= 'z', ch >= 'A' && ch <= 'Z':
			b.WriteRune(ch)
		default:
			b.WriteByte('_')
		}
	}
	return pkgPath, b.String()
}

// c19Placement models where the stubs of the generated file belong: the Go package protoc-gen-go puts the
// file's own service descriptions in (an M mapping for the file beats its go_package), except that
// import_path stands in for files that have no M mapping. Also the package of the dependency file.
func c19Placement(c c19Case) (ownPath, ownName, depPath, depName, module string) {
	imap := map[string]string{}
	importPath := ""
	for _, p := range c.Params {
		vals := strings.SplitN(p, "=", 2)
		switch {
		case vals[0] == "import_path" && len(vals) == 2:
			importPath = vals[1]
		case vals[0] == "module" && len(vals) == 2:
			module = vals[1]
		case len(vals[0]) > 1 && vals[0][0] == 'M' && len(vals) == 2:
			imap[vals[0][1:]] = vals[1]
		}
	}
	spec := c.GoPackage
	if m, ok := imap[c.FileName]; ok {
		spec = m
	} else if importPath != "" {
		spec = importPath
	}
	ownPath, ownName = c19GoPkg(spec, c.FileName, c.Package)
	depSpec := "example.com/dep;deppb"
	if m, ok := imap[c19DepFile]; ok {
		depSpec = m
	} else if importPath != "" && c.AlsoDep != "" {
		depSpec = importPath // import_path speaks for every file named for generation that has no M mapping
	}
	depPath, depName = c19GoPkg(depSpec, c19DepFile, "dep.pkg")
	return
}

// ---------------------------------------------------------------------------------------
// type-checking the emitted file against companions written the way protoc-gen-go and
// protoc-gen-go-grpc write them (those generators cannot be run offline; their naming conventions
// are what the plugin relies on and what the checked-in stubs are compiled against)

type c19Importer struct {
	mu    sync.Mutex
	src   types.ImporterFrom
	real  map[string]*types.Package
	fakes map[string]*types.Package
}

var c19Imp = &c19Importer{}

func (im *c19Importer) Import(path string) (*types.Package, error) { return im.ImportFrom(path, "", 0) }

func (im *c19Importer) ImportFrom(path, dir string, mode types.ImportMode) (*types.Package, error) {
	if p, ok := im.fakes[path]; ok {
		return p, nil
	}
	if p, ok := im.real[path]; ok {
		return p, nil
	}
	if im.src == nil {
		im.src = importer.ForCompiler(token.NewFileSet(), "source", nil).(types.ImporterFrom)
		im.real = map[string]*types.Package{}
	}
	wd, _ := os.Getwd()
	p, err := im.src.ImportFrom(path, wd, 0) // resolves through the go command: once per path and process
	if err == nil {
		im.real[path] = p
	}
	return p, err
}

// c19FakeDep: the dependency's Go package as protoc-gen-go would emit it (just the message type).
func c19FakeDep(path, name string) *types.Package {
	pkg := types.NewPackage(path, name)
	tn := types.NewTypeName(token.NoPos, pkg, "Shared", nil)
	types.NewNamed(tn, types.NewStruct(nil, nil), nil)
	pkg.Scope().Insert(tn)
	pkg.MarkComplete()
	return pkg
}

func c19TypeCheck(c c19Case, src, ownPath, ownName, depPath, depName string, legacyDesc bool) string {
	depLocal := depPath == ownPath
	goType := func(kind, local string) string {
		switch kind {
		case "dep":
			if depLocal {
				return "*Shared"
			}
			return "*deppkg.Shared"
		case "empty":
			return "*emptypb.Empty"
		case "localempty":
			return "*Empty"
		}
		return "*" + local
	}
	var b strings.Builder
	fmt.Fprintf(&b, "package %s\n\nimport (\n\t\"context\"\n\t\"google.golang.org/grpc\"\n\t\"google.golang.org/protobuf/types/known/emptypb\"\n", ownName)
	if !depLocal {
		fmt.Fprintf(&b, "\tdeppkg %q\n", depPath)
	}
	b.WriteString(")\n\nvar _ context.Context\nvar _ *emptypb.Empty\n\ntype Req struct{}\ntype Resp struct{}\ntype Empty struct{}\n")
	if depLocal {
		b.WriteString("type Shared struct{}\n")
	} else {
		b.WriteString("var _ *deppkg.Shared\n")
	}
	for _, sv := range c.Services {
		svc := camelCase(sv.Name)
		descVar := svc + "_ServiceDesc"
		if legacyDesc {
			descVar = "_" + svc + "_serviceDesc"
		}
		fmt.Fprintf(&b, "\nvar %s grpc.ServiceDesc\ntype %sServer interface{}\ntype %sClient interface {\n", descVar, svc, svc)
		for _, m := range sv.Methods {
			mn := camelCase(m.Name)
			switch {
			case !m.CS && !m.SS:
				fmt.Fprintf(&b, "\t%s(ctx context.Context, in %s, opts ...grpc.CallOption) (%s, error)\n", mn, goType(m.In, "Req"), goType(m.Out, "Resp"))
			case m.CS:
				fmt.Fprintf(&b, "\t%s(ctx context.Context, opts ...grpc.CallOption) (%s_%sClient, error)\n", mn, svc, mn)
			default:
				fmt.Fprintf(&b, "\t%s(ctx context.Context, in %s, opts ...grpc.CallOption) (%s_%sClient, error)\n", mn, goType(m.In, "Req"), svc, mn)
			}
		}
		b.WriteString("}\n")
		for _, m := range sv.Methods {
			if m.CS || m.SS {
				mn := camelCase(m.Name)
				fmt.Fprintf(&b, "type %s_%sClient interface{ grpc.ClientStream }\ntype %s%sClient struct{ grpc.ClientStream }\n", svc, mn, unexport(svc), mn)
			}
		}
	}
	fset := token.NewFileSet()
	gen, err := parser.ParseFile(fset, "generated.pb.grpchan.go", src, 0)
	if err != nil {
		return "emitted file does not parse: " + err.Error()
	}
	comp, err := parser.ParseFile(fset, "companion.pb.go", b.String(), 0)
	if err != nil {
		return "harness: companion does not parse: " + err.Error() + "\n" + b.String()
	}
	c19Imp.mu.Lock()
	defer c19Imp.mu.Unlock()
	c19Imp.fakes = map[string]*types.Package{}
	if !depLocal {
		c19Imp.fakes[depPath] = c19FakeDep(depPath, depName)
	}
	var first error
	conf := types.Config{Importer: c19Imp, Error: func(e error) {
		if first == nil {
			first = e
		}
	}}
	conf.Check(ownPath, fset, []*ast.File{comp, gen}, nil)
	if first != nil {
		return first.Error()
	}
	return ""
}

func propC19(c c19Case) *Outcome {
	o := &Outcome{}
	if c.Mode == "regenerate" {
		return c19Regenerate(o)
	}
	valid, legacyStubs, legacyDesc, sourceRel := c19ParamsValid(c.Params)
	o.class("params-valid=%v/legacy_stubs=%v/legacy_desc_names=%v", valid, legacyStubs, legacyDesc)
	o.class("services=%d", len(c.Services))
	interleaved := false
	for _, s := range c.Services {
		seenStream, idx := false, 0
		for i, m := range s.Methods {
			if m.CS || m.SS {
				if idx != i {
					interleaved = true
				}
				idx++
				seenStream = true
			}
		}
		_ = seenStream
	}
	for _, p := range c.Params {
		if strings.HasPrefix(p, "M"+c.FileName+"=") {
			o.class("M-mapping-for-generated-file")
		}
		if strings.HasPrefix(p, "import_path=") {
			o.class("import_path")
		}
	}
	o.NonTrivial = interleaved || len(c.Services) >= 2 || !valid
	req := &pluginpb.CodeGeneratorRequest{
		FileToGenerate: []string{c.FileName},
		ProtoFile:      []*descriptorpb.FileDescriptorProto{c19DepProto(), protodesc.ToFileDescriptorProto(emptypb.File_google_protobuf_empty_proto), c.fileProto()},
	}
	twinSvc := ""
	if c.Twin != "" && len(c.Services) > 0 && strings.HasPrefix(c.GoPackage, "example.com/") {
		// same package name, other import path: <dir>/zz/<base>[;name]
		gp, name := c.GoPackage, ""
		if i := strings.IndexByte(gp, ';'); i >= 0 {
			gp, name = gp[:i], gp[i:]
		}
		twinGo := gp[:strings.LastIndexByte(gp, '/')] + "/zz" + gp[strings.LastIndexByte(gp, '/'):] + name
		twinSvc = c.Services[0].Name
		tfd := &descriptorpb.FileDescriptorProto{Name: proto.String("other/twin.proto"), Package: proto.String("twin.pkg"), Syntax: proto.String("proto3"),
			Options:     &descriptorpb.FileOptions{GoPackage: proto.String(twinGo)},
			MessageType: []*descriptorpb.DescriptorProto{{Name: proto.String("Req")}, {Name: proto.String("Resp")}},
			Service: []*descriptorpb.ServiceDescriptorProto{{Name: proto.String(twinSvc), Method: []*descriptorpb.MethodDescriptorProto{
				{Name: proto.String("Ping"), InputType: proto.String(".twin.pkg.Req"), OutputType: proto.String(".twin.pkg.Resp")}}}}}
		req.ProtoFile = append(req.ProtoFile, tfd)
		if c.Twin == "first" {
			req.FileToGenerate = []string{"other/twin.proto", c.FileName}
		} else {
			req.FileToGenerate = []string{c.FileName, "other/twin.proto"}
		}
		o.class("second-file-with-a-namesake-service-in-a-namesake-package")
	}
	switch c.AlsoDep {
	case "first":
		req.FileToGenerate = append([]string{c19DepFile}, req.FileToGenerate...)
		o.class("several-files-to-generate")
	case "last":
		req.FileToGenerate = append(req.FileToGenerate, c19DepFile)
		o.class("several-files-to-generate")
	}
	if len(c.Params) > 0 {
		req.Parameter = proto.String(strings.Join(c.Params, ","))
	}
	resp, stderr, err := runPlugin(req)
	if err != nil {
		o.Observed = stderr
		return o.failf("plugin did not produce a response: %v (stderr: %.300s)", err, stderr)
	}
	o.Observed = map[string]interface{}{"error": resp.GetError(), "files": len(resp.File)}
	if !valid {
		if resp.Error == nil {
			return o.failf("invalid parameters %q accepted", c.Params)
		}
		return o
	}
	if resp.Error != nil {
		return o.failf("valid parameters %q, valid file: plugin error %q", c.Params, resp.GetError())
	}
	var outs []*pluginpb.CodeGeneratorResponse_File
	for _, f := range resp.File {
		if strings.HasSuffix(f.GetName(), ".pb.grpchan.go") {
			outs = append(outs, f)
		} else {
			return o.failf("unexpected output file %q", f.GetName())
		}
	}
	if twinSvc != "" {
		// the other file's output: there, and complete
		var rest []*pluginpb.CodeGeneratorResponse_File
		found := false
		for _, f := range outs {
			if filepath.Base(f.GetName()) == "twin.pb.grpchan.go" {
				found = true
				if want := "func RegisterHandler" + camelCase(twinSvc) + "("; !strings.Contains(f.GetContent(), want) {
					o.Observed = f.GetContent()
					return o.failf("two files with services in one request (packages of the same name, different import paths, both declaring service %q): the output for other/twin.proto lacks %q", twinSvc, want)
				}
				continue
			}
			rest = append(rest, f)
		}
		if !found {
			return o.failf("two files with services in one request: no output for other/twin.proto (outputs: %d)", len(outs))
		}
		outs = rest
	}
	if len(c.Services) == 0 {
		if len(outs) != 0 {
			return o.failf("file without services produced %d output file(s)", len(outs))
		}
		return o
	}
	if len(outs) != 1 {
		return o.failf("file with %d services produced %d output files", len(c.Services), len(outs))
	}
	base := strings.TrimSuffix(filepath.Base(c.FileName), ".proto") + ".pb.grpchan.go"
	if filepath.Base(outs[0].GetName()) != base {
		return o.failf("output file %q, expected base name %q", outs[0].GetName(), base)
	}
	if sourceRel && outs[0].GetName() != filepath.ToSlash(filepath.Join(filepath.Dir(c.FileName), base)) {
		return o.failf("paths=source_relative: output %q for source %q", outs[0].GetName(), c.FileName)
	}
	src := outs[0].GetContent()
	formatted, ferr := format.Source([]byte(src))
	if ferr != nil {
		o.Observed = src
		return o.failf("emitted code is not valid Go: %v", ferr)
	}
	if string(formatted) != src {
		return o.failf("emitted code is not gofmt-stable")
	}
	calls, types, perr := analyseStubs(src)
	if perr != nil {
		return o.failf("emitted code does not parse: %v", perr)
	}
	// placement: the stubs refer to <Svc>_ServiceDesc, <Svc>Server and <Svc>Client unqualified, so they are
	// only "for its own service description" when they land in the package those live in
	ownPath, ownName, depPath, depName, module := c19Placement(c)
	af, _ := parser.ParseFile(token.NewFileSet(), "gen.go", src, parser.ImportsOnly)
	if af.Name.Name != ownName {
		return o.failf("package clause %q; the file's Go package (M mapping, else import_path, else go_package %q) is named %q", af.Name.Name, c.GoPackage, ownName)
	}
	if !sourceRel {
		dir := ownPath
		if module != "" {
			dir = strings.TrimPrefix(dir, strings.TrimSuffix(module, "/")+"/")
		}
		if want := path.Join(dir, base); outs[0].GetName() != want {
			return o.failf("output file %q, expected %q (Go package path %q, module %q)", outs[0].GetName(), want, ownPath, module)
		}
	}
	imports := map[string]bool{}
	for _, im := range af.Imports {
		ip, _ := strconv.Unquote(im.Path.Value)
		imports[ip] = true
	}
	if imports[ownPath] {
		return o.failf("emitted file imports its own package %q", ownPath)
	}
	if legacyStubs && depPath != ownPath {
		for _, s := range c.Services {
			for _, m := range s.Methods {
				if !m.CS && !m.SS && (m.In == "dep" || m.Out == "dep") && !imports[depPath] {
					return o.failf("%s.%s uses a message of %s (Go package %q) yet the emitted file does not import it (imports %v)", s.Name, m.Name, c19DepFile, depPath, imports)
				}
			}
		}
	}
	// the emitted file type-checks next to the declarations protoc-gen-go / protoc-gen-go-grpc produce for the
	// same file (a Go package cannot import itself, so a file placed in another package than its own
	// declarations, or qualifying its own types, fails here too)
	if why := c19TypeCheck(c, src, ownPath, ownName, depPath, depName, legacyDesc); why != "" {
		if strings.HasPrefix(why, "harness:") {
			o.Inconclusive = why
			return o
		}
		o.Observed = src
		return o.failf("emitted code does not type-check against the companion declarations of protoc-gen-go/-go-grpc: %s", why)
	}
	o.class("type-checked")
	byFn := map[string][]stubCall{}
	for _, sc := range calls {
		byFn[sc.recv+"."+sc.fn] = append(byFn[sc.recv+"."+sc.fn], sc)
	}
	expectedFns := 0
	for _, s := range c.Services {
		svc := camelCase(s.Name)
		descVar := svc + "_ServiceDesc"
		if legacyDesc {
			descVar = "_" + svc + "_serviceDesc"
		}
		reg := byFn[".RegisterHandler"+svc]
		if len(reg) != 1 || reg[0].callee != "RegisterService" || reg[0].descVar != descVar || reg[0].path != "srv" {
			return o.failf("RegisterHandler%s: calls %+v, expected reg.RegisterService(&%s, srv)", svc, reg, descVar)
		}
		expectedFns++
		full := s.Name
		if c.Package != "" {
			full = c.Package + "." + s.Name
		}
		clientType := unexport(svc) + "ChannelClient"
		if !legacyStubs {
			for _, t := range types {
				if t == clientType {
					return o.failf("legacy_stubs off, yet type %s is emitted", clientType)
				}
			}
			continue
		}
		hasType := false
		for _, t := range types {
			hasType = hasType || t == clientType
		}
		if !hasType {
			return o.failf("legacy_stubs on: type %s missing", clientType)
		}
		if ctor := byFn[".New"+svc+"ChannelClient"]; len(ctor) != 0 {
			return o.failf("constructor New%sChannelClient makes calls: %+v", svc, ctor)
		}
		streamRank := 0
		for _, m := range s.Methods {
			got := byFn[clientType+"."+camelCase(m.Name)]
			wantPath := "/" + full + "/" + m.Name
			if len(got) != 1 {
				return o.failf("%s.%s: %d channel calls, expected 1 (%+v)", clientType, camelCase(m.Name), len(got), got)
			}
			expectedFns++
			g := got[0]
			if g.path != wantPath {
				return o.failf("%s.%s calls path %q, expected %q", clientType, camelCase(m.Name), g.path, wantPath)
			}
			switch {
			case !m.CS && !m.SS:
				if g.callee != "Invoke" {
					return o.failf("%s.%s (unary) uses %s", clientType, camelCase(m.Name), g.callee)
				}
			default:
				if g.callee != "NewStream" {
					return o.failf("%s.%s (streaming) uses %s", clientType, camelCase(m.Name), g.callee)
				}
				if g.descVar != descVar || g.streamIdx != streamRank {
					return o.failf("%s.%s uses &%s.Streams[%d], expected &%s.Streams[%d] (rank among the service's streaming methods)", clientType, camelCase(m.Name), g.descVar, g.streamIdx, descVar, streamRank)
				}
				serverOnly := m.SS && !m.CS
				if serverOnly != (g.sends && g.closes) || (!serverOnly && (g.sends || g.closes)) {
					return o.failf("%s.%s (cs=%v ss=%v): sends=%v closes=%v", clientType, camelCase(m.Name), m.CS, m.SS, g.sends, g.closes)
				}
				streamRank++
			}
		}
	}
	if legacyStubs {
		n := 0
		for k, v := range byFn {
			_ = k
			n += len(v)
		}
		if n != expectedFns {
			return o.failf("emitted file makes %d channel/registry calls, the descriptors call for %d", n, expectedFns)
		}
	}
	return o
}

// c19Regenerate: the repository's own checked-in stubs are reproduced byte for byte.
func c19Regenerate(o *Outcome) *Outcome {
	o.class("regenerate")
	o.NonTrivial = true
	fd := protodesc.ToFileDescriptorProto(pb.File_test_proto)
	req := &pluginpb.CodeGeneratorRequest{
		FileToGenerate: []string{fd.GetName()},
		Parameter:      proto.String("legacy_stubs"),
		ProtoFile: []*descriptorpb.FileDescriptorProto{protodesc.ToFileDescriptorProto(anypb.File_google_protobuf_any_proto),
			protodesc.ToFileDescriptorProto(emptypb.File_google_protobuf_empty_proto), fd},
	}
	resp, stderr, err := runPlugin(req)
	if err != nil {
		return o.failf("plugin did not produce a response: %v (%.300s)", err, stderr)
	}
	if resp.Error != nil {
		return o.failf("regeneration failed: %s", resp.GetError())
	}
	if len(resp.File) != 1 {
		return o.failf("regeneration produced %d files", len(resp.File))
	}
	want, err := os.ReadFile("/repo/grpchantesting/test.pb.grpchan.go")
	if err != nil {
		o.Inconclusive = "cannot read checked-in stub: " + err.Error()
		return o
	}
	if resp.File[0].GetContent() != string(want) {
		o.Observed = resp.File[0].GetContent()
		return o.failf("regenerating grpchantesting/test.pb.grpchan.go does not reproduce the checked-in file")
	}
	return o
}

var c19Names = []string{"Get", "get_thing", "List2", "watch_all", "DoIt", "x", "stream_data", "Put_Item", "a1b2", "HTTPCall", "_hidden", "do_2_things"}
var c19SvcNames = []string{"Svc", "my_service", "Svc2", "API", "inner_svc_v2"}

func genC19(t *rapid.T) c19Case {
	if rapid.IntRange(0, 19).Draw(t, "regen") == 0 {
		return c19Case{Mode: "regenerate"}
	}
	c := c19Case{Mode: "generate"}
	c.FileName = rapid.SampledFrom([]string{"svc.proto", "a/b/svc.proto", "x_y/my_api.proto", "Main.proto", "Models/MMsvc.proto"}).Draw(t, "file")
	c.Package = rapid.SampledFrom([]string{"", "pkg", "a.b.c", "my_pkg.v1"}).Draw(t, "package")
	c.GoPackage = rapid.SampledFrom([]string{"example.com/foo/bar", "example.com/foo/bar;barpb", "./;main", "example.com/mod/sub/pkg;pkgv1"}).Draw(t, "gopkg")
	ns := rapid.IntRange(0, 3).Draw(t, "nsvc")
	svcNames := rapid.Permutation(c19SvcNames).Draw(t, "svcnames")
	for i := 0; i < ns; i++ {
		s := c19Service{Name: svcNames[i]}
		nm := rapid.IntRange(0, 8).Draw(t, "nmethods")
		names := rapid.Permutation(c19Names).Draw(t, "mnames")
		for j := 0; j < nm; j++ {
			m := c19Method{Name: names[j], In: rapid.SampledFrom([]string{"local", "local", "dep", "empty", "localempty"}).Draw(t, "in"), Out: rapid.SampledFrom([]string{"local", "local", "dep", "empty", "localempty"}).Draw(t, "out")}
			switch rapid.IntRange(0, 5).Draw(t, "mkind") {
			case 0, 1, 2:
			case 3:
				m.SS = true
			case 4:
				m.CS = true
			default:
				m.CS, m.SS = true, true
			}
			s.Methods = append(s.Methods, m)
		}
		if len(s.Methods) > 0 && rapid.IntRange(0, 3).Draw(t, "coincide") == 0 {
			// a method named like (a part of) what precedes it in its fully-qualified name: "Ping.Ping", "EchoService.Echo",
			// a package component
			cands := []string{s.Name, s.Name[:1], s.Name[:len(s.Name)-1]}
			if c.Package != "" {
				parts := strings.Split(c.Package, ".")
				cands = append(cands, parts[len(parts)-1], parts[0])
			}
			s.Methods[rapid.IntRange(0, len(s.Methods)-1).Draw(t, "coincideat")].Name = rapid.SampledFrom(cands).Draw(t, "coincidename")
		}
		c.Services = append(c.Services, s)
	}
	c.AlsoDep = rapid.SampledFrom([]string{"", "", "first", "last"}).Draw(t, "alsodep")
	c.Twin = rapid.SampledFrom([]string{"", "", "", "first", "last"}).Draw(t, "twin")
	np := rapid.IntRange(0, 4).Draw(t, "nparams")
	pool := []string{"legacy_stubs", "legacy_stubs", "legacy_stubs=true", "legacy_stubs=on", "legacy_stubs=YES", "legacy_stubs=1", "legacy_stubs=false", "legacy_stubs=0", "legacy_desc_names", "legacy_desc_names=true", "legacy_desc_names=no",
		"debug", "debug=off", "paths=import", "paths=source_relative", "module=example.com/mod", "module=example.com/foo", "import_path=example.com/override", "import_path=example.com/override/v2;ovr", "Mdep/dep.proto=example.com/other/dep", "Mdep/dep.proto=example.com/x/grpc", "Mdep/dep.proto=example.com/x/context", "Mdep/dep.proto=example.com/x/emptypb", "Mdep/dep.proto=example.com/x/grpchan", "Mdep/dep.proto=example.com/y/v1;bar", "Msvc.proto=example.com/m/svc;svcpb", "Ma/b/svc.proto=example.com/mod/ab", "Mx_y/my_api.proto=example.com/m/api;apipb",
		// documented invalid forms
		"legacy_stubs=maybe", "paths=relative", "paths", "module", "import_path", "Mfoo.proto", "bogus", "bogus=1", "debug=2", "legacy_desc_names=", "M"}
	for i := 0; i < np; i++ {
		c.Params = append(c.Params, rapid.SampledFrom(pool).Draw(t, "param"))
	}
	// the option combinations that decide where the stubs are placed, drawn deliberately
	if rapid.IntRange(0, 3).Draw(t, "mapself") == 0 {
		c.Params = append(c.Params, "M"+c.FileName+"="+rapid.SampledFrom([]string{"example.com/m/own", "example.com/mod/own/v2;ownpb", "example.com/foo/bar"}).Draw(t, "mapselfto"))
	}
	if rapid.IntRange(0, 3).Draw(t, "importpath") == 0 {
		c.Params = append(c.Params, "import_path="+rapid.SampledFrom([]string{"example.com/override", "example.com/mod/ovr;ovrpb", "plain"}).Draw(t, "importpathto"))
	}
	if len(c.Params) > 1 && rapid.Bool().Draw(t, "shuffle") {
		c.Params = rapid.Permutation(c.Params).Draw(t, "paramorder")
	}
	return c
}

func init() { registerReplay("C19", propC19) }

const c19Rule = "rapid-generated FileDescriptorProtos (package empty/nested, four go_package forms, 0..3 services, 0..8 methods of the four kinds in any interleaving, snake_case/CamelCase/digit/underscore names, methods named like their service, a prefix of it or a package component, local/imported/well-known request and response types (also a local message called Empty next to google.protobuf.Empty) with dependency files) x parameter lists (legacy_stubs, legacy_desc_names, debug, paths, module, import_path, M mappings, every accepted boolean spelling, and the documented invalid forms) fed as CodeGeneratorRequest to the plugin binary built from the working tree; " +
	"oracle: error iff the parameters are invalid by the documented grammar; one *.pb.grpchan.go iff the file has services; output parses (go/parser) and is a go/format fixed point; AST model: RegisterHandler<Svc> calls reg.RegisterService(&<desc var per legacy_desc_names>, srv); with legacy_stubs every method has exactly one stub calling Invoke / NewStream with path /<full service>/<method>, &<desc>.Streams[rank among the service's streaming methods], SendMsg+CloseSend iff server-streaming only; without legacy_stubs no client types; placement model: package clause and output path are those of the Go package holding the file's own service descriptions (M mapping for the file > import_path > go_package; module prefix trimmed; paths=source_relative), imported message packages are imported under their M mapping, the file never imports itself; " +
	"also generated since the seeded rounds: M mapping of the generated file with and without import_path (drawn deliberately), the messages-only dependency file named for generation before/after the file under test, a second file with a namesake service in a namesake Go package (other import path) generated in the same request, dependency packages whose Go name collides with another import (grpc, context, emptypb, grpchan) or with the file's own package; the emitted file is type-checked (go/types) next to companion declarations written the way protoc-gen-go/-go-grpc write them; " +
	"plus byte-exact regeneration of grpchantesting/test.pb.grpchan.go from the compiled-in descriptors; non-trivial = streaming methods interleaved with unary ones, >=2 services, invalid parameters, or regeneration; distinct by case hash"

func TestC19(t *testing.T) {
	if _, err := pluginBinary(); err != nil {
		t.Fatalf("cannot build plugin: %v", err)
	}
	rec("C19").rule = c19Rule
	runEnum(t, "C19", []c19Case{{Mode: "regenerate"}}, propC19)
	if t.Failed() {
		return
	}
	runProp(t, "C19", c19Rule, genC19, propC19)
}
