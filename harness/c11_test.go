package harness

// C11 — the HTTP server runs handlers only for valid requests and always answers well-formed.

import (
	"bufio"
	"bytes"
	"context"
	"encoding/base64"
	"fmt"
	spb "google.golang.org/genproto/googleapis/rpc/status"
	"google.golang.org/protobuf/encoding/protowire"
	"google.golang.org/protobuf/types/known/anypb"
	"google.golang.org/protobuf/types/known/structpb"
	"io"
	"mime"
	"net"
	"net/http"
	"net/http/httptest"
	"runtime/debug"
	"strings"
	"sync"
	"testing"
	"time"

	"google.golang.org/grpc"
	"google.golang.org/grpc/codes"
	"google.golang.org/grpc/status"
	"google.golang.org/protobuf/encoding/protojson"
	"google.golang.org/protobuf/proto"
	"pgregory.net/rapid"

	pb "github.com/fullstorydev/grpchan/grpchantesting"
	"github.com/fullstorydev/grpchan/httpgrpc"
)

type HdrPair struct {
	K string
	V string
}

type c11Case struct {
	Carrier string // http | httpmux
	// ShortUnary: separate mode over real TCP: the request is cut short at ShortAt (an offset, or with
	// ShortBoundary the index of a field boundary) and the client half-closes
	ShortUnary    bool   `json:",omitempty"`
	ShortAt       int    `json:",omitempty"`
	ShortBoundary bool   `json:",omitempty"`
	NoLength      bool   `json:",omitempty"` // the request arrives without a declared length (chunked upload, HTTP/2 without content-length)
	Detail        bool   `json:",omitempty"` // the handler's error status carries a detail (an Any of a type the server does not know)
	Renderer      bool   `json:",omitempty"` // the server is configured with a custom ErrorRenderer (errors in band: always 200); it is application code too
	Base          string `json:",omitempty"` // base path the server is configured with ("" = "/"): only paths under it are registered
	Method        string
	Path          string
	CT            []string  // Content-Type header values (nil = absent)
	Hdrs          []HdrPair // extra request headers
	BodyKind      string    // proto | json | frames | frames-cut | raw
	Msg           MsgSpec   `json:",omitempty"`
	NFrames       int       `json:",omitempty"`
	Raw           []byte    `json:",omitempty"`
	// handler behaviour once invoked
	// frames-cut: the frame sequence is truncated; CutFrame/CutAt say where (bytes of frame CutFrame kept; 0 = at the boundary)
	CutFrame int `json:",omitempty"`
	CutAt    int `json:",omitempty"`
	// RetRecvErr: the stream handler returns a non-EOF receive error as its result, as handlers normally do
	RetRecvErr bool   `json:",omitempty"`
	NoRecv     bool   `json:",omitempty"` // stream handler does not read the request stream at all
	RespN      int    // stream: number of responses
	Deep       int    `json:",omitempty"` // the request carries an error detail holding a list nested this many levels deep
	RespSize   int    `json:",omitempty"` // stream: payload bytes in every response (frame sizes around powers of two)
	ErrCode    uint32 // 0 = ok
	// OKErr (stream methods): the handler fails with a non-nil error whose gRPC status says OK and has no
	// message (a careless wrapper around a nil upstream status); nothing else is in the trailer. The call
	// failed, so the reply still ends with exactly one trailer frame, and that frame does not say OK
	OKErr bool `json:",omitempty"`
	// JSONTwin: additionally send the same message JSON-encoded and compare (valid unary requests only)
	JSONTwin bool `json:",omitempty"`
}

var c11Paths = map[string]string{mUnary: kUnary, mClientStream: kClientStream, mServerStream: kServerStream, mBidi: kBidi}

type c11Run struct {
	mu       sync.Mutex
	entered  int // desc-level handler invocations
	appRuns  int // application code reached (request decoded)
	gotReq   *pb.Message
	recvErr  string
	rendered int // custom error renderer invocations
}

func (c *c11Case) service(r *c11Run) *Service {
	return &Service{
		UnaryRaw: func(ctx context.Context, dec func(interface{}) error, _ grpc.UnaryServerInterceptor) (interface{}, error) {
			r.mu.Lock()
			r.entered++
			r.mu.Unlock()
			in := new(pb.Message)
			if err := dec(in); err != nil {
				return nil, err
			}
			r.mu.Lock()
			r.appRuns++
			r.gotReq = in
			r.mu.Unlock()
			if c.ErrCode != 0 {
				if c.Detail {
					return nil, status.ErrorProto(&spb.Status{Code: int32(c.ErrCode), Message: "app error", Details: []*anypb.Any{{TypeUrl: "type.googleapis.com/unknown.Type", Value: []byte{1, 2, 3}}}})
				}
				return nil, status.Error(codes.Code(c.ErrCode), "app error")
			}
			return &pb.Message{Payload: in.Payload, Count: in.Count + 1, Code: in.Code, Headers: in.Headers}, nil
		},
		Stream: func(kind string, stream grpc.ServerStream) error {
			r.mu.Lock()
			r.entered++
			r.mu.Unlock()
			for i := 0; i < 1000 && !c.NoRecv; i++ {
				m := new(pb.Message)
				if err := stream.RecvMsg(m); err != nil {
					r.mu.Lock()
					r.recvErr = err.Error()
					r.mu.Unlock()
					if c.RetRecvErr && err != io.EOF {
						return err
					}
					break
				}
				r.mu.Lock()
				r.appRuns++
				r.mu.Unlock()
				if !clientStreaming(kind) {
					break
				}
			}
			for i := 0; i < c.RespN; i++ {
				if err := stream.SendMsg(&pb.Message{Count: int32(i), Payload: bytes.Repeat([]byte{byte('a' + i)}, c.RespSize)}); err != nil {
					return err
				}
			}
			if c.OKErr {
				return okEmptyStatusErr{}
			}
			if c.ErrCode != 0 {
				return status.Error(codes.Code(c.ErrCode), "app error")
			}
			return nil
		},
	}
}

// msg: the request message of the case; with Deep > 0 it carries, as an error detail, a list nested that many levels
// deep (a document whose JSON form is deeply nested while its protobuf form is flat bytes inside an Any).
func (c *c11Case) msg() *pb.Message {
	m := c.Msg.Build()
	if c.Deep > 0 {
		v := structpb.NewListValue(&structpb.ListValue{})
		for i := 1; i < c.Deep; i++ {
			v = structpb.NewListValue(&structpb.ListValue{Values: []*structpb.Value{v}})
		}
		if a, err := anypb.New(v.GetListValue()); err == nil {
			m.ErrorDetails = append(m.ErrorDetails, a)
		}
	}
	return m
}

func (c *c11Case) body(ct string) []byte {
	switch c.BodyKind {
	case "proto":
		return mustMarshal(c.msg())
	case "json":
		b, err := protojson.Marshal(c.msg())
		if err != nil {
			return []byte("{}")
		}
		return b
	case "frames":
		var ms []proto.Message
		for i := 0; i < c.NFrames; i++ {
			m := c.msg()
			m.Count = int32(i)
			ms = append(ms, m)
		}
		return encodeStream(ms, nil)
	case "frames-cut":
		b, _, _ := c.cutBody()
		return b
	}
	return c.Raw
}

// cutBody builds the truncated frame sequence and says how many frames are complete and whether the cut
// falls inside a frame (as opposed to on a frame boundary).
func (c *c11Case) cutBody() (body []byte, complete int, inside bool) {
	for i := 0; i < c.NFrames; i++ {
		m := c.msg()
		m.Count = int32(i)
		fr := appendFrame(nil, mustMarshal(m), false)
		if i == c.CutFrame {
			k := c.CutAt
			if k >= len(fr) {
				k = len(fr) - 1
			}
			return append(body, fr[:k]...), i, k > 0
		}
		body = append(body, fr...)
	}
	return body, c.NFrames, false
}

type c11Reply struct {
	Status   int
	Header   http.Header
	Body     []byte
	Panic    string
	Entered  int
	AppRuns  int
	RecvErr  string
	Rendered int
	Req      *pb.Message
}

func (c *c11Case) exec(ctValues []string, body []byte) *c11Reply {
	r := &c11Run{}
	var hopts []httpgrpc.HandlerOption
	if c.Renderer {
		hopts = append(hopts, httpgrpc.ErrorRenderer(func(_ context.Context, st *status.Status, w http.ResponseWriter) {
			r.mu.Lock()
			r.rendered++
			r.mu.Unlock()
			w.WriteHeader(200)
		}))
	}
	car := newHTTPHandlerBase(c.Carrier, c.Base, newServiceDesc(), c.service(r), hopts...)
	req := httptest.NewRequest(c.Method, "http://verif.test"+c.Path, bytes.NewReader(body))
	if c.NoLength {
		req.Body = io.NopCloser(bytes.NewReader(body))
		req.ContentLength = -1
		req.TransferEncoding = []string{"chunked"}
	}
	req.Header.Del("Content-Type")
	for _, v := range ctValues {
		req.Header.Add("Content-Type", v)
	}
	for _, h := range c.Hdrs {
		req.Header.Add(h.K, h.V)
	}
	w := httptest.NewRecorder()
	rep := &c11Reply{}
	func() {
		defer func() {
			if p := recover(); p != nil {
				rep.Panic = fmt.Sprintf("%v\n%s", p, debug.Stack())
			}
		}()
		car.ServeHTTP(w, req)
	}()
	res := w.Result()
	rep.Status, rep.Header = res.StatusCode, res.Header
	rep.Body, _ = io.ReadAll(res.Body)
	r.mu.Lock()
	rep.Entered, rep.AppRuns, rep.Req, rep.RecvErr, rep.Rendered = r.entered, r.appRuns, r.gotReq, r.recvErr, r.rendered
	r.mu.Unlock()
	return rep
}

// c11Rel maps a request path to the method path relative to the configured base ("" = not under the base).
func c11Rel(base, p string) string {
	if base == "" {
		return p
	}
	if strings.HasPrefix(p, base+"/") {
		return p[len(base):]
	}
	return ""
}

func newHTTPHandlerBase(carrier, base string, desc *grpc.ServiceDesc, svc interface{}, hopts ...httpgrpc.HandlerOption) http.Handler {
	if base == "" {
		base = "/"
	}
	if carrier == cHTTPMux {
		mux := http.NewServeMux()
		httpgrpc.HandleServices(mux.HandleFunc, base, newHandlerMap(desc, svc), nil, nil, hopts...)
		return mux
	}
	if carrier == cHTTPPer {
		mux := http.NewServeMux()
		perMethodMux(mux, base, desc, svc, nil, nil, hopts...)
		return mux
	}
	sopts := []httpgrpc.ServerOption{httpgrpc.WithBasePath(base)}
	for _, ho := range hopts {
		sopts = append(sopts, ho)
	}
	s := httpgrpc.NewServer(sopts...)
	s.RegisterService(desc, svc)
	return s
}

func newHTTPHandlerOnly(carrier string, desc *grpc.ServiceDesc, svc interface{}) http.Handler {
	if carrier == cHTTPMux {
		mux := http.NewServeMux()
		httpgrpc.HandleServices(mux.HandleFunc, "/", newHandlerMap(desc, svc), nil, nil)
		return mux
	}
	if carrier == cHTTPPer {
		mux := http.NewServeMux()
		perMethodMux(mux, "/", desc, svc, nil, nil)
		return mux
	}
	s := httpgrpc.NewServer()
	s.RegisterService(desc, svc)
	return s
}

// c11ShortUnary: the client announces a unary request of N bytes, sends only part of it and then closes its
// sending side in an orderly way (FIN). Over a real TCP connection to a real net/http server. An incomplete
// request is not a request: the handler does not run and the answer is not a success - even when the bytes that
// did arrive end on a field boundary and would decode as a (different) message.
func c11ShortUnary(c c11Case) *Outcome {
	o := &Outcome{NonTrivial: true}
	full := mustMarshal(c.msg())
	// candidate cut points: every field boundary and the drawn offset
	var bounds []int
	for off := 0; off < len(full); {
		_, _, n := protowire.ConsumeField(full[off:])
		if n <= 0 {
			break
		}
		bounds = append(bounds, off)
		off += n
	}
	k := c.ShortAt
	if c.ShortBoundary && len(bounds) > 0 {
		k = bounds[c.ShortAt%len(bounds)]
	}
	if len(full) == 0 || k >= len(full) {
		return o // nothing to leave out
	}
	if k < 0 {
		k = 0
	}
	o.class("short-unary-body/on-field-boundary=%v", c.ShortBoundary)
	r := &c11Run{}
	srv := httptest.NewServer(newHTTPHandlerBase(c.Carrier, "", newServiceDesc(), c.service(r)))
	defer srv.Close()
	conn, err := net.Dial("tcp", srv.Listener.Addr().String())
	if err != nil {
		o.Inconclusive = "harness: dial: " + err.Error()
		return o
	}
	defer conn.Close()
	conn.SetDeadline(time.Now().Add(stallBound))
	fmt.Fprintf(conn, "POST %s HTTP/1.1\r\nHost: verif.test\r\nContent-Type: application/x-protobuf\r\nContent-Length: %d\r\nConnection: close\r\n\r\n", mUnary, len(full))
	conn.Write(full[:k])
	conn.(*net.TCPConn).CloseWrite()
	resp, rerr := http.ReadResponse(bufio.NewReader(conn), nil)
	status, gs := 0, ""
	if rerr == nil {
		status, gs = resp.StatusCode, resp.Header.Get("X-Grpc-Status")
		io.Copy(io.Discard, resp.Body)
		resp.Body.Close()
	}
	r.mu.Lock()
	runs := r.appRuns
	r.mu.Unlock()
	o.Observed = map[string]interface{}{"announced": len(full), "sent": k, "status": status, "x-grpc-status": gs, "app_runs": runs, "read_err": errStr(rerr)}
	if runs != 0 {
		return o.failf("%s: unary request announced as %d bytes, %d bytes sent, then the sending side closed: the handler ran on the incomplete request (HTTP %d)", c.Carrier, len(full), k, status)
	}
	if rerr == nil && status >= 200 && status < 300 && (gs == "" || strings.HasPrefix(gs, "0")) {
		return o.failf("%s: incomplete unary request (%d of %d bytes) answered with success: HTTP %d X-GRPC-Status %q", c.Carrier, k, len(full), status, gs)
	}
	return o
}

func propC11(c c11Case) *Outcome {
	if c.ShortUnary {
		return c11ShortUnary(c)
	}
	o := &Outcome{}
	kind, registered := c11Paths[c11Rel(c.Base, c.Path)]
	if c.Base != "" {
		o.class("base-path/under-base=%v", c11Rel(c.Base, c.Path) != "")
	}
	o.class("carrier=%s", c.Carrier)
	o.class("method=%s", strings.ToUpper(c.Method))
	if registered {
		o.class("path=%s", kind)
	} else {
		o.class("path=unregistered")
	}
	// the gate model
	var ct string
	if len(c.CT) > 0 {
		ct = c.CT[0]
	}
	mediaType, _, _ := mime.ParseMediaType(ct)
	ctOK := false
	if registered {
		if kind == kUnary {
			ctOK = mediaType == "application/x-protobuf" || mediaType == "application/json"
		} else {
			ctOK = mediaType == "application/x-httpgrpc-proto+v1"
		}
	}
	hdrOK := true
	for _, h := range c.Hdrs {
		if strings.HasSuffix(strings.ToLower(h.K), "-bin") {
			if _, err := base64.URLEncoding.DecodeString(h.V); err != nil {
				hdrOK = false
			}
		}
	}
	methodOK := c.Method == "POST"
	violations := 0
	for _, ok := range []bool{registered, methodOK, ctOK || !registered, hdrOK} {
		if !ok {
			violations++
		}
	}
	o.class("gates-violated=%d", violations)
	body := c.body(ct)
	rep := c.exec(c.CT, body)
	o.Observed = map[string]interface{}{"status": rep.Status, "x-grpc-status": rep.Header.Get("X-Grpc-Status"), "entered": rep.Entered, "app_runs": rep.AppRuns, "body_len": len(rep.Body), "panic": rep.Panic}
	o.NonTrivial = violations > 0 || c.BodyKind == "raw" || c.BodyKind == "json" || c.BodyKind == "frames-cut" || (kind == kUnary && c.BodyKind == "frames")
	if rep.Panic != "" {
		return o.failf("server panicked: %s", rep.Panic)
	}
	if rep.Entered > 1 {
		return o.failf("handler invoked %d times for one request", rep.Entered)
	}
	shouldRun := registered && methodOK && ctOK && hdrOK
	if c.Renderer {
		o.class("custom-error-renderer")
	}
	if !shouldRun {
		if rep.Rendered != 0 {
			return o.failf("%s %s (content-type %q, headers ok=%v): the request must be refused by the library itself, yet the application's error renderer ran (%d times; HTTP %d)", c.Method, c.Path, c.CT, hdrOK, rep.Rendered, rep.Status)
		}
		if rep.Entered != 0 || rep.AppRuns != 0 {
			return o.failf("%s %s (content-type %q, headers ok=%v): handler invoked although the request must be refused", c.Method, c.Path, c.CT, hdrOK)
		}
		allowed := map[int]bool{}
		if !registered {
			allowed[404] = true
			// Go's ServeMux answers 405 on its own only for method-qualified patterns; not used here
		} else {
			if !methodOK {
				allowed[405] = true
			}
			if !ctOK {
				allowed[415] = true
			}
			if !hdrOK {
				allowed[400] = true
			}
		}
		if !allowed[rep.Status] {
			return o.failf("%s %s (content-type %q, headers ok=%v): refused with HTTP %d, allowed %v", c.Method, c.Path, c.CT, hdrOK, rep.Status, keysOf(allowed))
		}
		return o
	}
	if rep.Entered != 1 {
		return o.failf("%s %s (content-type %q): all conditions met but handler invoked %d times (HTTP %d)", c.Method, c.Path, c.CT, rep.Entered, rep.Status)
	}
	if kind == kUnary {
		// does the body decode under the selected codec?
		decodes := false
		probe := new(pb.Message)
		if mediaType == "application/json" {
			decodes = protojson.UnmarshalOptions{DiscardUnknown: true}.Unmarshal(body, probe) == nil
		} else {
			decodes = proto.Unmarshal(body, probe) == nil
		}
		gs := rep.Header.Get("X-Grpc-Status")
		if !decodes {
			if rep.AppRuns != 0 {
				return o.failf("undecodable unary body reached application code")
			}
			if !strings.HasPrefix(gs, "3:") {
				return o.failf("undecodable unary body (%s): X-GRPC-Status %q, HTTP %d; want InvalidArgument", mediaType, gs, rep.Status)
			}
			return o
		}
		if rep.AppRuns != 1 {
			return o.failf("decodable unary body: application code ran %d times", rep.AppRuns)
		}
		if c.ErrCode != 0 {
			if !strings.HasPrefix(gs, fmt.Sprintf("%d:", int32(c.ErrCode))) {
				return o.failf("handler returned code %d: X-GRPC-Status %q", c.ErrCode, gs)
			}
		} else if rep.Status != 200 || (gs != "" && !strings.HasPrefix(gs, "0")) {
			return o.failf("handler succeeded: HTTP %d X-GRPC-Status %q", rep.Status, gs)
		}
		if c.JSONTwin && c.BodyKind == "proto" && mediaType == "application/x-protobuf" {
			if f := c11JSONTwin(&c, rep); f != "" {
				return o.failf("%s", f)
			}
			o.class("json-twin")
		}
		return o
	}
	// streaming reply: frames followed by exactly one trailer frame and nothing after
	if rep.Status != 200 {
		return o.failf("stream %s: HTTP %d", c.Path, rep.Status)
	}
	d := refDecode(rep.Body)
	if d.Err != nil || !d.HasTrailer || !d.TrailerOK {
		return o.failf("stream reply is malformed: ref err=%v trailer=%v parses=%v (body %d bytes)", d.Err, d.HasTrailer, d.TrailerOK, len(rep.Body))
	}
	if d.Rest != 0 {
		return o.failf("stream reply has %d bytes after the trailer frame (second trailer?)", d.Rest)
	}
	if c.BodyKind == "frames-cut" && !c.NoRecv {
		// a request stream that ends inside a frame is not a clean end of stream: the handler's RecvMsg
		// yields the complete messages and then an error other than io.EOF
		_, complete, inside := c.cutBody()
		o.class("cut:inside=%v/after-preface=%v", inside, c.CutAt == 4)
		// (methods that take one request refuse anything after the first frame; that is C20's subject, so
		// only bodies of at most one frame are judged for them)
		judged := clientStreaming(kind) || complete == 0 || (complete == 1 && !inside)
		if !judged {
			// a method that takes one request got its complete first frame and then more bytes (a further
			// frame, or a fragment of one): that is not a well-formed single request. Whatever error the
			// library picks, the handler's one RecvMsg must not succeed and the call must not end OK.
			if rep.AppRuns != 0 {
				return o.failf("single-request method: %d complete frame(s) followed by more bytes (cut in frame %d after %d bytes): the handler's RecvMsg succeeded as if the request were well-formed", complete, c.CutFrame, c.CutAt)
			}
			if d.TrailerMsg.Code == 0 && c.RetRecvErr {
				return o.failf("single-request method: malformed request (extra bytes after the first frame), handler returned its receive error %q, trailer says OK", rep.RecvErr)
			}
			return o
		}
		if rep.AppRuns != complete {
			return o.failf("request stream cut in frame %d after %d bytes: handler received %d messages, %d complete frames were sent", c.CutFrame, c.CutAt, rep.AppRuns, complete)
		}
		reachedCut := clientStreaming(kind) || complete == 0
		if reachedCut && inside {
			if rep.RecvErr == "" || rep.RecvErr == io.EOF.Error() {
				return o.failf("request stream cut inside frame %d (%d bytes of it arrived): handler's RecvMsg reported %q, i.e. a normal end of stream", c.CutFrame, c.CutAt, rep.RecvErr)
			}
			if c.RetRecvErr {
				if d.TrailerMsg.Code == 0 {
					return o.failf("handler returned its receive error %q, trailer says OK", rep.RecvErr)
				}
				return o
			}
		}
		if reachedCut && !inside && rep.RecvErr != io.EOF.Error() {
			return o.failf("request stream of %d complete frames: handler's RecvMsg ended with %q, expected EOF", complete, rep.RecvErr)
		}
	}
	if c.OKErr && rep.Entered > 0 {
		// (whichever way the handler left - this error, or an earlier receive or send error - it returned non-nil)
		o.class("stream/handler-error-with-ok-status")
		if d.TrailerMsg.Code == 0 {
			return o.failf("stream handler returned a non-nil error (its status says OK, no message): the trailer reports code 0, success, for a failed call")
		}
	} else if uint32(d.TrailerMsg.Code) != c.ErrCode && d.TrailerMsg.Code != int32(codes.InvalidArgument) && rep.AppRuns >= 0 {
		// the handler's own status must be in the trailer unless its RecvMsg failed first
		if !(c.ErrCode == 0 && d.TrailerMsg.Code == 0) {
			return o.failf("stream trailer carries code %d, handler returned %d", d.TrailerMsg.Code, c.ErrCode)
		}
	}
	if len(d.Frames) != c.RespN {
		return o.failf("stream reply holds %d messages, handler sent %d", len(d.Frames), c.RespN)
	}
	for i, f := range d.Frames {
		m := new(pb.Message)
		if err := proto.Unmarshal(f, m); err != nil || int(m.Count) != i || len(m.Payload) != c.RespSize {
			return o.failf("stream reply: frame %d of %d (%d bytes) is not the message the handler sent (count %d, %d payload bytes): %v", i, len(d.Frames), len(f), i, c.RespSize, err)
		}
	}
	return o
}

func keysOf(m map[int]bool) []int {
	var ks []int
	for k := range m {
		ks = append(ks, k)
	}
	return ks
}

// c11JSONTwin: the same message sent JSON-encoded must be handled identically.
func c11JSONTwin(c *c11Case, protoRep *c11Reply) string {
	jb, err := protojson.Marshal(c.msg())
	if err != nil {
		return ""
	}
	jrep := c.exec([]string{"application/json"}, jb)
	if jrep.Panic != "" {
		return "JSON twin: server panicked: " + jrep.Panic
	}
	if jrep.Entered != 1 || jrep.AppRuns != 1 {
		return fmt.Sprintf("JSON twin: handler entered %d / app ran %d times (HTTP %d, X-GRPC-Status %q)", jrep.Entered, jrep.AppRuns, jrep.Status, jrep.Header.Get("X-Grpc-Status"))
	}
	if !proto.Equal(jrep.Req, protoRep.Req) {
		return fmt.Sprintf("JSON twin: handler received %v, protobuf twin received %v", jrep.Req, protoRep.Req)
	}
	if jrep.Header.Get("X-Grpc-Status") != protoRep.Header.Get("X-Grpc-Status") {
		return fmt.Sprintf("JSON twin: status %q vs %q", jrep.Header.Get("X-Grpc-Status"), protoRep.Header.Get("X-Grpc-Status"))
	}
	if c.ErrCode == 0 {
		if jrep.Status != 200 {
			return fmt.Sprintf("JSON twin: HTTP %d", jrep.Status)
		}
		a, b := new(pb.Message), new(pb.Message)
		if err := protojson.Unmarshal(jrep.Body, a); err != nil {
			return fmt.Sprintf("JSON twin: reply body is not JSON: %v (%q)", err, jrep.Body)
		}
		if err := proto.Unmarshal(protoRep.Body, b); err != nil {
			return fmt.Sprintf("protobuf reply does not decode: %v", err)
		}
		if !proto.Equal(a, b) {
			return fmt.Sprintf("JSON twin: response %v vs %v", a, b)
		}
		if mt, _, _ := mime.ParseMediaType(jrep.Header.Get("Content-Type")); mt != "application/json" {
			return fmt.Sprintf("JSON twin: reply content type %q", jrep.Header.Get("Content-Type"))
		}
	}
	return ""
}

var c11Methods = []string{"POST", "POST", "POST", "POST", "GET", "HEAD", "PUT", "DELETE", "OPTIONS", "PATCH", "post", "Post", "TRACE", "QUERY", "X-custom"}

var c11CTs = []string{"application/x-protobuf", "application/json", "application/x-httpgrpc-proto+v1",
	// names under which gRPC's own codec and compressor registries know something (none of them is a media type of this protocol)
	"application/proto", "Application/Proto; charset=utf-8", "application/gzip", "application/identity", "application/protobuf", "application/x-proto",
	// near misses of the streaming media type: other versions, decorated versions
	"application/x-httpgrpc-proto+v1beta", "application/x-httpgrpc-proto+v1.1", "application/x-httpgrpc-proto+v01", "application/x-httpgrpc-proto+v+1", "application/x-httpgrpc-proto+v1-json", "application/x-httpgrpc-proto+v1+v2", "application/x-httpgrpc-proto+v10", "application/x-httpgrpc-proto+v",
	"Application/X-Protobuf", "APPLICATION/JSON", "application/X-HTTPGRPC-PROTO+V1",
	"application/x-protobuf; charset=utf-8", "application/json;charset=UTF-8", "application/x-httpgrpc-proto+v1; v=1", " application/json", "application/json ",
	"application/x-protobuf;", "application/x-protobuf; bad", "application/json; charset", "application/json; =", "text/plain", "application/grpc", "application/x-httpgrpc-proto+v2", "application/x-protobuf2",
	"application/jsonx", "application", "/", "", "*/*", "application/x-protobuf, application/json", "application/json/x", "json"}

func genC11(t *rapid.T) c11Case {
	if rapid.IntRange(0, 39).Draw(t, "shortunary") == 0 {
		c := c11Case{Carrier: rapid.SampledFrom([]string{cHTTP, cHTTPMux, cHTTPPer}).Draw(t, "carrier"), ShortUnary: true, Method: "POST", Path: mUnary,
			ShortAt: rapid.IntRange(0, 400).Draw(t, "shortat"), ShortBoundary: rapid.Bool().Draw(t, "shortboundary")}
		c.Msg = genMsg(t, "msg", 300)
		c.Msg.Anys, c.Msg.Unknown = nil, nil
		if c.Msg.Empty {
			c.Msg = MsgSpec{Raw: []byte("payload"), Count: 7, Code: 9}
		}
		return c
	}
	c := c11Case{Carrier: rapid.SampledFrom([]string{cHTTP, cHTTPMux, cHTTPPer}).Draw(t, "carrier")}
	c.Method = "POST"
	if rapid.IntRange(0, 4).Draw(t, "oddmethod") == 0 {
		c.Method = rapid.SampledFrom(c11Methods).Draw(t, "method")
	}
	c.Path = rapid.SampledFrom([]string{mUnary, mUnary, mUnary, mClientStream, mServerStream, mBidi}).Draw(t, "path")
	if rapid.IntRange(0, 7).Draw(t, "oddpath") == 0 {
		c.Path = rapid.SampledFrom([]string{"/verif.Svc/Nope", "/verif.Svc", "/", "/verif.Svc/Unary/x", "/other.Svc/Unary", "/verif.Svc/unary", "/verif.svc/Unary", "/Verif.Svc/Bidi2"}).Draw(t, "badpath")
	}
	kind := c11Paths[c.Path]
	if rapid.IntRange(0, 3).Draw(t, "withbase") == 0 {
		// a server mounted under a base path: the same method paths outside it are unknown paths
		c.Base = rapid.SampledFrom([]string{"/api/v1", "/x", "/verif.Svc"}).Draw(t, "base")
		switch rapid.IntRange(0, 5).Draw(t, "basepath") {
		case 0, 1, 2:
			c.Path = c.Base + c.Path
		case 3:
			// left as is: not under the base
			kind = ""
		case 4:
			c.Path, kind = c.Base+"x"+c.Path, ""
		default:
			c.Path, kind = c.Base[:len(c.Base)-1]+c.Path, ""
			if strings.Contains(c.Path, "//") {
				c.Path = c.Base + "y" + c.Path[1:] // keep the path clean (unclean ones are redirected by ServeMux)
			}
		}
	}
	// content type: mostly one that fits, else from the grammar
	switch rapid.IntRange(0, 15).Draw(t, "ctmode") {
	case 0:
		c.CT = nil
	case 1:
		c.CT = []string{rapid.SampledFrom(c11CTs).Draw(t, "ct1"), rapid.SampledFrom(c11CTs).Draw(t, "ct2")}
	case 2, 3, 4:
		c.CT = []string{rapid.SampledFrom(c11CTs).Draw(t, "ct")}
	default:
		if kind == kUnary || kind == "" {
			c.CT = []string{rapid.SampledFrom([]string{"application/x-protobuf", "application/json", "application/x-protobuf; charset=utf-8", "APPLICATION/JSON"}).Draw(t, "ctfit")}
		} else {
			c.CT = []string{rapid.SampledFrom([]string{"application/x-httpgrpc-proto+v1", "application/X-HTTPGRPC-PROTO+V1", "application/x-httpgrpc-proto+v1; v=1"}).Draw(t, "ctfit")}
		}
	}
	nh := rapid.IntRange(0, 3).Draw(t, "nhdrs")
	for i := 0; i < nh; i++ {
		switch rapid.SampledFrom([]int{0, 0, 0, 1, 2, 2, 3, 3, 4, 5}).Draw(t, "hkind") {
		case 0:
			c.Hdrs = append(c.Hdrs, HdrPair{rapid.SampledFrom([]string{"Zz-Data-Bin", "Zz-Data-Bin", "Grpc-Trace-Bin"}).Draw(t, "goodbink"), base64.URLEncoding.EncodeToString(rapid.SliceOfN(rapid.Byte(), 0, 9).Draw(t, "binv"))})
		case 1:
			c.Hdrs = append(c.Hdrs, HdrPair{rapid.SampledFrom([]string{"Zz-Data-Bin", "q-bin", "APP-X-BIN", "Grpc-Trace-Bin", "grpc-status-details-bin", "GRPC-TAGS-BIN", "X-Grpc-Bin"}).Draw(t, "bink"),
				rapid.SampledFrom([]string{"!!!", "a", "YQ", "YQ=", "a b", "YWJj=", "+/+/", "YWJj\tZA=="}).Draw(t, "badbin")})
		case 2:
			c.Hdrs = append(c.Hdrs, HdrPair{"Grpc-Timeout", genTimeoutHeader(t)})
		case 3:
			c.Hdrs = append(c.Hdrs, HdrPair{"Zz-Plain", rapid.StringMatching(`[!-~]{0,10}`).Draw(t, "plain")})
		case 4:
			c.Hdrs = append(c.Hdrs, HdrPair{"Zz-Binx", "!!! not base64, and not a -bin key"})
		default:
			c.Hdrs = append(c.Hdrs, HdrPair{"X-Bin", ""})
		}
	}
	c.Renderer = rapid.IntRange(0, 3).Draw(t, "renderer") == 0
	c.NoLength = rapid.IntRange(0, 3).Draw(t, "nolength") == 0
	c.Detail = rapid.Bool().Draw(t, "detail")
	c.Msg = genMsg(t, "msg", 300)
	c.Msg.Anys, c.Msg.Unknown = nil, nil // JSON cannot carry unresolvable Any / unknown fields
	if rapid.IntRange(0, 9).Draw(t, "deep") == 0 {
		c.Deep = rapid.SampledFrom([]int{3, 50, 98, 99, 100, 101, 150, 500}).Draw(t, "deepn")
	}
	for k := range c.Msg.Hdr {
		if strings.ContainsRune(k, 0) {
			delete(c.Msg.Hdr, k)
		}
	}
	for k := range c.Msg.Tlr {
		if strings.ContainsRune(k, 0) {
			delete(c.Msg.Tlr, k)
		}
	}
	c.NFrames = rapid.IntRange(0, 3).Draw(t, "nframes")
	c.BodyKind = rapid.SampledFrom([]string{"proto", "proto", "json", "frames", "frames", "raw"}).Draw(t, "bodykind")
	if c.BodyKind == "raw" {
		c.Raw = rapid.OneOf(rapid.SliceOfN(rapid.Byte(), 0, 40), rapid.SampledFrom(hostilePrefixes), rapid.Just([]byte(`{"count": "x"}`)), rapid.Just([]byte(`{"count": 5, "nosuch": 1}`)), rapid.Just([]byte(`{`))).Draw(t, "raw")
	}
	if kind != "" && kind != kUnary && rapid.IntRange(0, 3).Draw(t, "cutbody") == 0 {
		c.BodyKind = "frames-cut"
		c.NFrames = rapid.IntRange(1, 3).Draw(t, "cutnframes")
		c.CutFrame = rapid.IntRange(0, c.NFrames-1).Draw(t, "cutframe")
		c.CutAt = rapid.SampledFrom([]int{0, 1, 2, 3, 4, 4, 4, 5, 6, 9, 1 << 20}).Draw(t, "cutat")
		c.RetRecvErr = rapid.Bool().Draw(t, "retrecverr")
	}
	c.RespN = rapid.IntRange(0, 3).Draw(t, "respn")
	if rapid.IntRange(0, 2).Draw(t, "respsized") == 0 {
		// response frames a few bytes around a power of two (64 B .. 16 KiB)
		c.RespSize = 1<<rapid.IntRange(6, 14).Draw(t, "resppow") + rapid.IntRange(-14, 6).Draw(t, "respdelta")
	}
	if kind == kClientStream {
		c.RespN = 1
	}
	c.ErrCode = rapid.SampledFrom([]uint32{0, 0, 0, 0, 3, 5, 13, 16, 17, 18, 99, 1 << 31}).Draw(t, "errcode")
	if rapid.IntRange(0, 7).Draw(t, "okerr") == 0 {
		c.OKErr, c.ErrCode = true, 0
	}
	c.NoRecv = rapid.IntRange(0, 4).Draw(t, "norecv") == 0
	c.JSONTwin = rapid.Bool().Draw(t, "jsontwin")
	return c
}

func init() { registerReplay("C11", propC11) }

const c11Rule = "rapid-generated HTTP requests against httpgrpc.Server and HandleServices via httptest: method (POST/GET/HEAD/PUT/DELETE/OPTIONS/PATCH/case variants/custom tokens) x path (each registered kind, unregistered, near misses) x Content-Type grammar (known types, case variants, parameters, malformed parameters, unknown, empty, absent, duplicated) x header sets (valid/invalid base64 in -bin headers, also under names in the grpc- namespace, good/bad GRPC-Timeout) x body (protobuf, protojson, frame sequences, frame sequences truncated at/inside a frame incl. right after a size preface, arbitrary bytes, hostile prefixes); " +
	"oracle = gate model: handler entered <=1 times and only if POST + supported media type (mime.ParseMediaType) + all -bin headers decode, otherwise 405/415/400/404 each only if its condition is violated; undecodable unary body => X-GRPC-Status 3 without application code; JSON twin of a protobuf request => equal request, response, status; stream replies parse (reference decoder) as frames + exactly one trailer, nothing after; a request stream cut inside a frame gives the handler its complete messages then a non-EOF error (non-OK trailer when the handler returns it), one cut on a boundary gives EOF; never a panic; " +
	"also generated since the seeded rounds: servers mounted under a base path (paths outside it and near misses are unknown), a custom ErrorRenderer (never invoked for requests the library must refuse), requests without a declared length, error statuses carrying a detail of a type unknown to the server, the per-method HTTP server form; " +
	"non-trivial = >=1 gate violated, or arbitrary/JSON body, or a frame body to a unary method; distinct by case hash"

func TestC11(t *testing.T) {
	runProp(t, "C11", c11Rule, genC11, propC11)
}

// FuzzServerRequest: coverage-guided search; bytes are decoded into the structured request.
func FuzzServerRequest(f *testing.F) {
	f.Add(uint8(0), uint8(0), "application/x-protobuf", "Zz-Bin", "YQ==", []byte{})
	f.Add(uint8(0), uint8(1), "application/x-httpgrpc-proto+v1", "Grpc-Timeout", "1S", []byte{0, 0, 0, 0})
	f.Add(uint8(4), uint8(3), "application/json", "q-bin", "!!", []byte(`{"count":1}`))
	f.Add(uint8(0), uint8(0), "application/json", "X", "y", []byte(`{"payload":"AA=="}`))
	f.Add(uint8(0), uint8(2), "application/x-httpgrpc-proto+v1; a=b", "X", "y", []byte{0x7f, 0xff, 0xff, 0xff})
	paths := []string{mUnary, mClientStream, mServerStream, mBidi, "/verif.Svc/Nope"}
	f.Fuzz(func(t *testing.T, m, p uint8, ct, hk, hv string, body []byte) {
		validTok := func(s string) bool {
			if s == "" {
				return false
			}
			for _, r := range s {
				if !(r >= 'a' && r <= 'z' || r >= 'A' && r <= 'Z' || r >= '0' && r <= '9' || r == '-') {
					return false
				}
			}
			return true
		}
		for _, s := range []string{ct, hv} {
			for _, b := range []byte(s) {
				if b < 0x20 && b != '\t' || b == 0x7f {
					return
				}
			}
		}
		if !validTok(hk) || strings.EqualFold(hk, "content-type") || strings.EqualFold(hk, "content-length") || strings.EqualFold(hk, "transfer-encoding") || strings.EqualFold(hk, "host") {
			return
		}
		c := c11Case{Carrier: []string{cHTTP, cHTTPMux, cHTTPPer, cHTTP}[int(m>>6)&3], Method: c11Methods[int(m&0x7f)%len(c11Methods)], Path: paths[int(p)%len(paths)], CT: []string{ct}, Hdrs: []HdrPair{{hk, hv}},
			BodyKind: "raw", Raw: body, RespN: int(p>>4) % 3, ErrCode: []uint32{0, 3, 13}[int(p>>6)%3]}
		if c11Paths[c.Path] == kClientStream {
			c.RespN = 1
		}
		if o := propC11(c); o.Fail != "" {
			t.Fatalf("C11: %s", o.Fail)
		}
	})
}
