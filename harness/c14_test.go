package harness

// C14 — every gRPC status code survives the unary HTTP mapping.

import (
	"bytes"
	"context"
	"fmt"
	"io"
	"net/http"
	"net/http/httptest"
	"net/url"
	"testing"

	"google.golang.org/grpc"
	"google.golang.org/grpc/codes"
	"google.golang.org/grpc/status"
	"pgregory.net/rapid"

	pb "github.com/fullstorydev/grpchan/grpchantesting"
	"github.com/fullstorydev/grpchan/httpgrpc"
)

// documented table of DefaultErrorRenderer, transcribed from its doc comment.
var c14Table = map[uint32]int{
	1:  502, // Canceled (*)
	2:  500, // Unknown
	3:  400, // InvalidArgument
	4:  504, // DeadlineExceeded (*)
	5:  404, // NotFound
	6:  409, // AlreadyExists
	7:  403, // PermissionDenied
	16: 401, // Unauthenticated
	8:  429, // ResourceExhausted
	9:  412, // FailedPrecondition
	10: 409, // Aborted
	11: 422, // OutOfRange
	12: 501, // Unimplemented
	13: 500, // Internal
	14: 503, // Unavailable
	15: 500, // DataLoss
}

type rtFunc func(*http.Request) (*http.Response, error)

func (f rtFunc) RoundTrip(r *http.Request) (*http.Response, error) { return f(r) }

var baseURL, _ = url.Parse("http://verif.test/")

type c14Case struct {
	Mode      string // "forward" | "fallback"
	Code      uint32 // forward: gRPC code returned by the handler
	Msg       string
	Cancelled bool   // forward: request context already cancelled
	Timeout   string `json:",omitempty"` // forward: GRPC-Timeout header of the request (e.g. "1n": the handler's own deadline passes, the request lives on)
	OKErr     bool   `json:",omitempty"` // forward: the handler returns a non-nil error whose gRPC status says OK
	Renderer  string // "default" | "nothing" | "teapot" | "option-default"
	Carrier   string // "server" | "mux"
	HTTP      int    // fallback: HTTP status
	Stream    bool   // fallback: through NewStream instead of Invoke
	Body      string // fallback: what the proxy-like reply carries ("empty","text")
}

func c14Renderer(name string) []httpgrpc.HandlerOption {
	switch name {
	case "nothing":
		return []httpgrpc.HandlerOption{httpgrpc.ErrorRenderer(func(context.Context, *status.Status, http.ResponseWriter) {})}
	case "teapot":
		return []httpgrpc.HandlerOption{httpgrpc.ErrorRenderer(func(_ context.Context, _ *status.Status, w http.ResponseWriter) {
			http.Error(w, "short and stout", 418)
		})}
	case "option-default":
		return []httpgrpc.HandlerOption{httpgrpc.ErrorRenderer(httpgrpc.DefaultErrorRenderer)}
	}
	return nil
}

func propC14(c c14Case) *Outcome {
	o := &Outcome{}
	if c.Mode == "forward" {
		return c14Forward(c, o)
	}
	return c14Fallback(c, o)
}

func c14Forward(c c14Case, o *Outcome) *Outcome {
	o.class("forward/renderer=%s", c.Renderer)
	o.class("forward/cancelled=%v", c.Cancelled)
	o.NonTrivial = c.Code != 0
	svc := &Service{Unary: func(ctx context.Context, req *pb.Message) (*pb.Message, error) {
		if c.OKErr {
			return nil, okStatusErr{}
		}
		if c.Code == 0 {
			return &pb.Message{Count: 7}, nil
		}
		return nil, status.Error(codes.Code(c.Code), c.Msg)
	}}
	var h http.Handler
	hopts := c14Renderer(c.Renderer)
	if c.Carrier == "mux" {
		mux := http.NewServeMux()
		reg := map[string]bool{}
		_ = reg
		hm := newHandlerMap(newServiceDesc(), svc)
		httpgrpc.HandleServices(mux.HandleFunc, "/", hm, nil, nil, hopts...)
		h = mux
	} else {
		var sopts []httpgrpc.ServerOption
		for _, ho := range hopts {
			sopts = append(sopts, ho)
		}
		s := httpgrpc.NewServer(sopts...)
		s.RegisterService(newServiceDesc(), svc)
		h = s
	}
	ctx, cancel := context.WithCancel(context.Background())
	defer cancel()
	if c.Cancelled {
		cancel()
	}
	req := httptest.NewRequest("POST", "http://verif.test"+mUnary, bytes.NewReader(nil)).WithContext(ctx)
	req.Header.Set("Content-Type", httpgrpc.UnaryRpcContentType_V1)
	if c.Timeout != "" {
		req.Header.Set("Grpc-Timeout", c.Timeout)
		o.class("forward/with-grpc-timeout")
	}
	w := httptest.NewRecorder()
	h.ServeHTTP(w, req)
	res := w.Result()
	obs := map[string]interface{}{"http_status": res.StatusCode, "x_grpc_status": res.Header.Get("X-Grpc-Status")}
	o.Observed = obs
	if c.OKErr {
		// the handler failed: whatever its status claims, the reply must be an error
		o.class("forward/ok-status-error")
		o.NonTrivial = true
		if (c.Renderer == "default" || c.Renderer == "option-default") && res.StatusCode < 400 {
			return o.failf("handler returned an error (with an OK status inside): HTTP status %d", res.StatusCode)
		}
		body, _ := io.ReadAll(res.Body)
		ch := &httpgrpc.Channel{BaseURL: baseURL, Transport: rtFunc(func(r *http.Request) (*http.Response, error) {
			rr := *res
			rr.Body = io.NopCloser(bytes.NewReader(body))
			rr.Request = r
			return &rr, nil
		})}
		err := ch.Invoke(context.Background(), mUnary, &pb.Message{}, new(pb.Message))
		obs["client_err"] = errStr(err)
		if err == nil {
			return o.failf("handler returned an error (with an OK status inside), renderer %s: the client reports success (X-GRPC-Status %q, HTTP %d)", c.Renderer, res.Header.Get("X-Grpc-Status"), res.StatusCode)
		}
		return o
	}

	// (1) HTTP status by the documented table (default renderer only).
	if c.Renderer == "default" || c.Renderer == "option-default" {
		var want int
		switch {
		case c.Code == 0:
			want = 200
		case (c.Code == 1 || c.Code == 4) && c.Cancelled:
			want = 499
		default:
			var ok bool
			if want, ok = c14Table[c.Code]; !ok {
				want = 500
			}
		}
		if res.StatusCode != want {
			return o.failf("code %d (cancelled=%v): HTTP status %d, documented table says %d", c.Code, c.Cancelled, res.StatusCode, want)
		}
		if c.Code != 0 && res.StatusCode < 400 {
			return o.failf("code %d rendered as non-error HTTP status %d", c.Code, res.StatusCode)
		}
	}

	// (2) the client recovers exactly the original code whatever the renderer wrote.
	body, _ := io.ReadAll(res.Body)
	for _, viaStream := range []bool{false} {
		_ = viaStream
		ch := &httpgrpc.Channel{BaseURL: baseURL, Transport: rtFunc(func(r *http.Request) (*http.Response, error) {
			rr := *res
			rr.Body = io.NopCloser(bytes.NewReader(body))
			rr.Request = r
			return &rr, nil
		})}
		out := new(pb.Message)
		err := ch.Invoke(context.Background(), mUnary, &pb.Message{}, out)
		got := status.Code(err)
		obs["client_code"] = uint32(got)
		if _, isStatus := status.FromError(err); !isStatus {
			return o.failf("client error is not a status error: %v", err)
		}
		if uint32(got) != c.Code {
			return o.failf("handler returned code %d, client recovered %d (HTTP %d, renderer %s)", c.Code, uint32(got), res.StatusCode, c.Renderer)
		}
		if c.Code == 0 && out.Count != 7 {
			return o.failf("OK response lost: %v", out)
		}
		if c.Code != 0 {
			if st, _ := status.FromError(err); st.Message() != c.Msg {
				return o.failf("message %q became %q", c.Msg, st.Message())
			}
		}
	}
	return o
}

func c14Fallback(c c14Case, o *Outcome) *Outcome {
	o.class("fallback/%dxx/stream=%v", c.HTTP/100, c.Stream)
	o.NonTrivial = true
	var body []byte
	hdr := http.Header{}
	switch c.Body {
	case "text":
		body = []byte(http.StatusText(c.HTTP) + "\n")
		hdr.Set("Content-Type", "text/plain; charset=utf-8")
	}
	is2xx := c.HTTP >= 200 && c.HTTP < 300
	if is2xx {
		// a well-formed successful reply, so that "OK" is observable as success
		if c.Stream {
			hdr.Set("Content-Type", httpgrpc.StreamRpcContentType_V1)
			body = encodeStream(nil, &httpgrpc.HttpTrailer{Code: 0, Message: "OK"})
		} else {
			hdr.Set("Content-Type", httpgrpc.UnaryRpcContentType_V1)
			body = nil
		}
	}
	ch := &httpgrpc.Channel{BaseURL: baseURL, Transport: rtFunc(func(r *http.Request) (*http.Response, error) {
		go io.Copy(io.Discard, r.Body)
		return &http.Response{StatusCode: c.HTTP, Status: fmt.Sprintf("%d %s", c.HTTP, http.StatusText(c.HTTP)), Proto: "HTTP/1.1", ProtoMajor: 1, ProtoMinor: 1,
			Header: hdr, Body: io.NopCloser(bytes.NewReader(body)), Request: r}, nil
	})}
	var err error
	if c.Stream {
		ctx, cancel := context.WithCancel(context.Background())
		defer cancel()
		var cs grpc.ClientStream
		cs, err = ch.NewStream(ctx, streamDescOf(kServerStream), mServerStream)
		if err == nil {
			cs.SendMsg(&pb.Message{})
			cs.CloseSend()
			err = cs.RecvMsg(new(pb.Message))
			if err == io.EOF {
				err = nil
			}
		}
	} else {
		err = ch.Invoke(context.Background(), mUnary, &pb.Message{}, new(pb.Message))
	}
	o.Observed = map[string]interface{}{"client_code": uint32(status.Code(err)), "err": fmt.Sprint(err)}
	if is2xx && err != nil {
		return o.failf("HTTP %d without gRPC status header: expected OK, got %v", c.HTTP, err)
	}
	if !is2xx {
		if err == nil {
			return o.failf("HTTP %d without gRPC status header reported as success", c.HTTP)
		}
		if _, ok := status.FromError(err); !ok || status.Code(err) == codes.OK {
			return o.failf("HTTP %d: error is not a non-OK status: %v", c.HTTP, err)
		}
	}
	return o
}

var c14Codes = []uint32{0, 1, 2, 3, 4, 5, 6, 7, 8, 9, 10, 11, 12, 13, 14, 15, 16, 17, 18, 99, 255, 1000, 1<<31 - 1, 1 << 31, 1<<32 - 1}

func c14Enumerate() []c14Case {
	var cs []c14Case
	for _, code := range c14Codes {
		for _, canc := range []bool{false, true} {
			for _, r := range []string{"default", "nothing", "teapot", "option-default"} {
				for _, car := range []string{"server", "mux"} {
					cs = append(cs, c14Case{Mode: "forward", Code: code, Msg: "m", Cancelled: canc, Renderer: r, Carrier: car})
					if !canc {
						cs = append(cs, c14Case{Mode: "forward", Code: code, Msg: "", Cancelled: canc, Renderer: r, Carrier: car})
					}
					if code == 1 || code == 4 || code == 2 {
						// the handler's own deadline (from GRPC-Timeout) has passed, the HTTP request is alive:
						// the 499 rule is about the request, not about that deadline
						cs = append(cs, c14Case{Mode: "forward", Code: code, Msg: "m", Cancelled: canc, Renderer: r, Carrier: car, Timeout: "1n"})
					}
					if code == 0 && !canc {
						cs = append(cs, c14Case{Mode: "forward", OKErr: true, Renderer: r, Carrier: car})
					}
				}
			}
		}
	}
	for st := 100; st <= 599; st++ {
		for _, stream := range []bool{false, true} {
			for _, b := range []string{"empty", "text"} {
				cs = append(cs, c14Case{Mode: "fallback", HTTP: st, Stream: stream, Body: b})
			}
		}
	}
	return cs
}

func genC14(t *rapid.T) c14Case {
	if rapid.IntRange(0, 3).Draw(t, "mode") == 0 {
		return c14Case{Mode: "fallback", HTTP: rapid.IntRange(100, 599).Draw(t, "http"), Stream: rapid.Bool().Draw(t, "stream"),
			Body: rapid.SampledFrom([]string{"empty", "text"}).Draw(t, "body")}
	}
	code := rapid.OneOf(rapid.Uint32Range(0, 20), rapid.Uint32(), rapid.SampledFrom(c14Codes)).Draw(t, "code")
	return c14Case{Mode: "forward", Code: code,
		Msg:       rapid.OneOf(rapid.Just(""), rapid.Just(":"), rapid.StringMatching(`[a-zA-Z0-9:%;,./ _-]{0,40}[a-zA-Z0-9]`)).Draw(t, "msg"),
		Cancelled: rapid.Bool().Draw(t, "cancelled"),
		Renderer:  rapid.SampledFrom([]string{"default", "nothing", "teapot", "option-default"}).Draw(t, "renderer"),
		Carrier:   rapid.SampledFrom([]string{"server", "mux"}).Draw(t, "carrier"),
		Timeout:   rapid.SampledFrom([]string{"", "", "1n", "0m", "1H"}).Draw(t, "timeout")}
}

func init() { registerReplay("C14", propC14) }

const c14Rule = "exhaustive grid {25 gRPC codes incl. out-of-range} x {request ctx cancelled or not} x {4 renderers} x {Server, HandleServices} (forward: HTTP status by documented table + client recovers exact code) " +
	"and every HTTP status 100..599 x {Invoke, NewStream} x {empty, text body} without X-GRPC-Status (fallback: OK iff 2xx), plus rapid-drawn codes over all of uint32 with drawn messages; " +
	"non-trivial = any case except a forward case with code OK; distinct by case hash"

func TestC14(t *testing.T) {
	rec("C14").rule = c14Rule
	rec("C14").exhaust = true
	runEnum(t, "C14", c14Enumerate(), propC14)
	if t.Failed() {
		return
	}
	runProp(t, "C14", c14Rule, genC14, propC14)
}
