package harness

// C14 — every gRPC status code survives the unary HTTP mapping.

import (
	"bytes"
	"context"
	"fmt"
	"io"
	"net/http"
	"net/http/httptest"
	"net/url"
	"strconv"
	"strings"
	"testing"
	"time"

	"google.golang.org/grpc"
	"google.golang.org/grpc/codes"
	"google.golang.org/grpc/metadata"
	"google.golang.org/grpc/status"
	"google.golang.org/protobuf/proto"
	"pgregory.net/rapid"

	pb "github.com/fullstorydev/grpchan/grpchantesting"
	"github.com/fullstorydev/grpchan/httpgrpc"
)

// documented table of DefaultErrorRenderer, transcribed from its doc comment.
var c14Table = map[uint32]int{
	1:  502, // Canceled (*)
	2:  500, // Unknown
	3:  400, // InvalidArgument
	4:  504, // DeadlineExceeded (*)
	5:  404, // NotFound
	6:  409, // AlreadyExists
	7:  403, // PermissionDenied
	16: 401, // Unauthenticated
	8:  429, // ResourceExhausted
	9:  412, // FailedPrecondition
	10: 409, // Aborted
	11: 422, // OutOfRange
	12: 501, // Unimplemented
	13: 500, // Internal
	14: 503, // Unavailable
	15: 500, // DataLoss
}

type rtFunc func(*http.Request) (*http.Response, error)

func (f rtFunc) RoundTrip(r *http.Request) (*http.Response, error) { return f(r) }

var baseURL, _ = url.Parse("http://verif.test/")

type c14Case struct {
	Mode       string // "forward" | "fallback"
	Code       uint32 // forward: gRPC code returned by the handler
	Msg        string
	Cancelled  bool   // forward: request context already cancelled
	Timeout    string `json:",omitempty"` // forward: GRPC-Timeout header of the request (e.g. "1n": the handler's own deadline passes, the request lives on)
	OKErr      bool   `json:",omitempty"` // forward: the handler returns a non-nil error whose gRPC status says OK
	Wrapped    bool   `json:",omitempty"` // forward: the handler adds context to its status error with %w
	RespToo    bool   `json:",omitempty"` // forward: the failing handler returns a response value next to its error
	MDOpts     bool   `json:",omitempty"` // forward: the caller asks for response metadata (grpc.Header and grpc.Trailer call options)
	KnownLen   bool   `json:",omitempty"` // forward: the reply reaches the client with its Content-Length known (what a real server does for a short body)
	CutErrBody bool   `json:",omitempty"` // forward: the body of an error reply breaks off half-way (the code travels in the head)
	Renderer   string // "default" | "nothing" | "teapot" | "option-default" | "ok-text" | "ok-empty-proto" | "no-content"
	Carrier    string // "server" | "mux"
	HTTP       int    // fallback: HTTP status
	Stream     bool   // fallback: through NewStream instead of Invoke
	Body       string // fallback: what the proxy-like reply carries ("empty","text")
	// reply mode: an arbitrary unary HTTP reply is presented to the client
	HasGS   bool     `json:",omitempty"` // X-GRPC-Status header present
	GS      string   `json:",omitempty"` // its value
	Details []string `json:",omitempty"` // X-GRPC-Details header values
	CT      string   `json:",omitempty"`
	Raw     []byte   `json:",omitempty"` // reply body
	// sequence mode: the codes of calls made one after the other on one channel whose transport allows MaxConns
	// connections per host (0 = no limit), under one long-lived caller context
	Seq      []uint32 `json:",omitempty"`
	MaxConns int      `json:",omitempty"`
}

// c14Sequence: every call of a sequence recovers its own code - also when connections are a scarce resource.
func c14Sequence(c c14Case, o *Outcome) *Outcome {
	o.NonTrivial = true
	o.class("sequence/calls=%d/max-conns=%d/renderer=%s", len(c.Seq), c.MaxConns, c.Renderer)
	svc := &Service{Unary: func(ctx context.Context, req *pb.Message) (*pb.Message, error) {
		code := uint32(req.Count)
		if code == 0 {
			return &pb.Message{Count: 7}, nil
		}
		return nil, status.Error(codes.Code(code), "failed")
	}}
	name := cHTTP
	if c.Carrier == "mux" {
		name = cHTTPMux
	}
	car := newCarrier(name, newServiceDesc(), svc, carrierOpts{HOpts: c14Renderer(c.Renderer)})
	defer car.Close()
	car.Transport.MaxConnsPerHost = c.MaxConns
	ctx, cancel := context.WithCancel(context.Background())
	defer cancel()
	var got []string
	for i, code := range c.Seq {
		var err error
		out := new(pb.Message)
		if stall := guardFor(5*time.Second, "call", func() { err = car.Conn.Invoke(ctx, mUnary, &pb.Message{Count: int32(code)}, out) }); stall != "" {
			o.Observed = got
			return o.failf("sequence %v on one channel (at most %d connections per host, renderer %s): call %d (code %d) did not return within 5s", c.Seq, c.MaxConns, c.Renderer, i+1, code)
		}
		got = append(got, fmt.Sprint(uint32(status.Code(err))))
		o.Observed = got
		if _, ok := status.FromError(err); !ok {
			return o.failf("sequence %v: call %d: not a status error: %v", c.Seq, i+1, err)
		}
		if uint32(status.Code(err)) != code {
			return o.failf("sequence %v on one channel (at most %d connections per host, renderer %s): call %d: handler returned code %d, caller recovered %v", c.Seq, c.MaxConns, c.Renderer, i+1, code, err)
		}
	}
	return o
}

func c14Renderer(name string) []httpgrpc.HandlerOption {
	switch name {
	case "nothing":
		return []httpgrpc.HandlerOption{httpgrpc.ErrorRenderer(func(context.Context, *status.Status, http.ResponseWriter) {})}
	case "teapot":
		return []httpgrpc.HandlerOption{httpgrpc.ErrorRenderer(func(_ context.Context, _ *status.Status, w http.ResponseWriter) {
			http.Error(w, "short and stout", 418)
		})}
	case "option-default":
		return []httpgrpc.HandlerOption{httpgrpc.ErrorRenderer(httpgrpc.DefaultErrorRenderer)}
	case "ok-text":
		// "always 200, the error is in the body": the status stays 200 and a body is written
		return []httpgrpc.HandlerOption{httpgrpc.ErrorRenderer(func(_ context.Context, st *status.Status, w http.ResponseWriter) {
			fmt.Fprintf(w, "{\"error\":%q}\n", st.Message())
		})}
	case "ok-empty-proto":
		// an explicit 200 whose body is, by accident, a decodable message
		return []httpgrpc.HandlerOption{httpgrpc.ErrorRenderer(func(_ context.Context, _ *status.Status, w http.ResponseWriter) {
			w.WriteHeader(200)
			w.Write([]byte{0x0a, 0x01, 'x'})
		})}
	case "no-content":
		return []httpgrpc.HandlerOption{httpgrpc.ErrorRenderer(func(_ context.Context, _ *status.Status, w http.ResponseWriter) {
			w.WriteHeader(204)
		})}
	}
	return nil
}

func propC14(c c14Case) *Outcome {
	o := &Outcome{}
	switch c.Mode {
	case "forward":
		return c14Forward(c, o)
	case "reply":
		return c14Reply(c, o)
	case "sequence":
		return c14Sequence(c, o)
	}
	return c14Fallback(c, o)
}

func c14Forward(c c14Case, o *Outcome) *Outcome {
	o.class("forward/renderer=%s", c.Renderer)
	o.class("forward/cancelled=%v", c.Cancelled)
	o.NonTrivial = c.Code != 0
	svc := &Service{Unary: func(ctx context.Context, req *pb.Message) (*pb.Message, error) {
		if c.OKErr {
			return nil, okStatusErr{}
		}
		if c.Code == 0 {
			return &pb.Message{Count: 7}, nil
		}
		var partial *pb.Message
		if c.RespToo {
			partial = &pb.Message{Count: 9, Payload: []byte("partial")}
		}
		if c.Wrapped {
			return partial, fmt.Errorf("lookup failed: %w", status.Error(codes.Code(c.Code), c.Msg))
		}
		return partial, status.Error(codes.Code(c.Code), c.Msg)
	}}
	wantMsg := c.Msg
	if c.Wrapped && c.Code != 0 {
		// the status package looks through %w: code of the wrapped status, text of the whole chain
		o.class("forward/wrapped-status")
		wantMsg = "lookup failed: " + status.Error(codes.Code(c.Code), c.Msg).Error()
	}
	var h http.Handler
	hopts := c14Renderer(c.Renderer)
	if c.Carrier == "mux" {
		mux := http.NewServeMux()
		reg := map[string]bool{}
		_ = reg
		hm := newHandlerMap(newServiceDesc(), svc)
		httpgrpc.HandleServices(mux.HandleFunc, "/", hm, nil, nil, hopts...)
		h = mux
	} else {
		var sopts []httpgrpc.ServerOption
		for _, ho := range hopts {
			sopts = append(sopts, ho)
		}
		s := httpgrpc.NewServer(sopts...)
		s.RegisterService(newServiceDesc(), svc)
		h = s
	}
	ctx, cancel := context.WithCancel(context.Background())
	defer cancel()
	if c.Cancelled {
		cancel()
	}
	req := httptest.NewRequest("POST", "http://verif.test"+mUnary, bytes.NewReader(nil)).WithContext(ctx)
	req.Header.Set("Content-Type", httpgrpc.UnaryRpcContentType_V1)
	if c.Timeout != "" {
		req.Header.Set("Grpc-Timeout", c.Timeout)
		o.class("forward/with-grpc-timeout")
	}
	w := httptest.NewRecorder()
	h.ServeHTTP(w, req)
	res := w.Result()
	obs := map[string]interface{}{"http_status": res.StatusCode, "x_grpc_status": res.Header.Get("X-Grpc-Status")}
	o.Observed = obs
	if c.OKErr {
		// the handler failed: whatever its status claims, the reply must be an error
		o.class("forward/ok-status-error")
		o.NonTrivial = true
		if (c.Renderer == "default" || c.Renderer == "option-default") && res.StatusCode < 400 {
			return o.failf("handler returned an error (with an OK status inside): HTTP status %d", res.StatusCode)
		}
		body, _ := io.ReadAll(res.Body)
		ch := &httpgrpc.Channel{BaseURL: baseURL, Transport: rtFunc(func(r *http.Request) (*http.Response, error) {
			rr := *res
			rr.Body = io.NopCloser(bytes.NewReader(body))
			rr.Request = r
			return &rr, nil
		})}
		err := ch.Invoke(context.Background(), mUnary, &pb.Message{}, new(pb.Message))
		obs["client_err"] = errStr(err)
		if err == nil {
			return o.failf("handler returned an error (with an OK status inside), renderer %s: the client reports success (X-GRPC-Status %q, HTTP %d)", c.Renderer, res.Header.Get("X-Grpc-Status"), res.StatusCode)
		}
		return o
	}

	// (1) HTTP status by the documented table (default renderer only).
	if c.Renderer == "default" || c.Renderer == "option-default" {
		var want int
		switch {
		case c.Code == 0:
			want = 200
		case (c.Code == 1 || c.Code == 4) && c.Cancelled:
			want = 499
		default:
			var ok bool
			if want, ok = c14Table[c.Code]; !ok {
				want = 500
			}
		}
		if res.StatusCode != want {
			return o.failf("code %d (cancelled=%v): HTTP status %d, documented table says %d", c.Code, c.Cancelled, res.StatusCode, want)
		}
		if c.Code != 0 && res.StatusCode < 400 {
			return o.failf("code %d rendered as non-error HTTP status %d", c.Code, res.StatusCode)
		}
	}

	// (2) the client recovers exactly the original code whatever the renderer wrote.
	body, _ := io.ReadAll(res.Body)
	for _, viaStream := range []bool{false} {
		_ = viaStream
		ch := &httpgrpc.Channel{BaseURL: baseURL, Transport: rtFunc(func(r *http.Request) (*http.Response, error) {
			rr := *res
			rr.Body = io.NopCloser(bytes.NewReader(body))
			if c.CutErrBody && c.Code != 0 && len(body) > 0 {
				// the error reply's body does not complete (connection cut, a slow error page): the status came in the head
				rr.Body = bodyReader(body[:len(body)/2], true)
			}
			if c.KnownLen && !(c.CutErrBody && c.Code != 0) {
				rr.ContentLength = int64(len(body))
			}
			rr.Request = r
			return &rr, nil
		})}
		out := new(pb.Message)
		var copts []grpc.CallOption
		var hmd, tmd metadata.MD
		if c.MDOpts {
			o.class("forward/with-metadata-call-options")
			copts = append(copts, grpc.Header(&hmd), grpc.Trailer(&tmd))
		}
		err := ch.Invoke(context.Background(), mUnary, &pb.Message{}, out, copts...)
		got := status.Code(err)
		obs["client_code"] = uint32(got)
		if _, isStatus := status.FromError(err); !isStatus {
			return o.failf("client error is not a status error: %v", err)
		}
		if uint32(got) != c.Code {
			return o.failf("handler returned code %d, client recovered %d (HTTP %d, renderer %s)", c.Code, uint32(got), res.StatusCode, c.Renderer)
		}
		if c.Code == 0 && out.Count != 7 {
			return o.failf("OK response lost: %v", out)
		}
		if c.Code != 0 && !strings.ContainsAny(wantMsg, "\r\n\t") {
			if st, _ := status.FromError(err); st.Message() != wantMsg {
				return o.failf("message %q became %q", wantMsg, st.Message())
			}
		}
	}
	return o
}

func c14Fallback(c c14Case, o *Outcome) *Outcome {
	o.class("fallback/%dxx/stream=%v", c.HTTP/100, c.Stream)
	o.NonTrivial = true
	var body []byte
	hdr := http.Header{}
	switch c.Body {
	case "text":
		body = []byte(http.StatusText(c.HTTP) + "\n")
		hdr.Set("Content-Type", "text/plain; charset=utf-8")
	}
	is2xx := c.HTTP >= 200 && c.HTTP < 300
	if is2xx {
		// a well-formed successful reply, so that "OK" is observable as success
		if c.Stream {
			hdr.Set("Content-Type", httpgrpc.StreamRpcContentType_V1)
			body = encodeStream(nil, &httpgrpc.HttpTrailer{Code: 0, Message: "OK"})
		} else {
			hdr.Set("Content-Type", httpgrpc.UnaryRpcContentType_V1)
			body = nil
		}
	}
	ch := &httpgrpc.Channel{BaseURL: baseURL, Transport: rtFunc(func(r *http.Request) (*http.Response, error) {
		go io.Copy(io.Discard, r.Body)
		return &http.Response{StatusCode: c.HTTP, Status: fmt.Sprintf("%d %s", c.HTTP, http.StatusText(c.HTTP)), Proto: "HTTP/1.1", ProtoMajor: 1, ProtoMinor: 1,
			Header: hdr, Body: io.NopCloser(bytes.NewReader(body)), Request: r}, nil
	})}
	var err error
	if c.Stream {
		ctx, cancel := context.WithCancel(context.Background())
		defer cancel()
		var cs grpc.ClientStream
		cs, err = ch.NewStream(ctx, streamDescOf(kServerStream), mServerStream)
		if err == nil {
			cs.SendMsg(&pb.Message{})
			cs.CloseSend()
			err = cs.RecvMsg(new(pb.Message))
			if err == io.EOF {
				err = nil
			}
		}
	} else {
		err = ch.Invoke(context.Background(), mUnary, &pb.Message{}, new(pb.Message))
	}
	o.Observed = map[string]interface{}{"client_code": uint32(status.Code(err)), "err": fmt.Sprint(err)}
	if is2xx && err != nil {
		return o.failf("HTTP %d without gRPC status header: expected OK, got %v", c.HTTP, err)
	}
	if !is2xx {
		if err == nil {
			return o.failf("HTTP %d without gRPC status header reported as success", c.HTTP)
		}
		if _, ok := status.FromError(err); !ok || status.Code(err) == codes.OK {
			return o.failf("HTTP %d: error is not a non-OK status: %v", c.HTTP, err)
		}
	}
	return o
}

// c14HeaderCode: the code a well-formed X-GRPC-Status value ("<decimal int32>:<message>", what the server
// writes) announces. ok=false: the value is not of that form.
func c14HeaderCode(v string) (code uint32, msg string, hasMsg, ok bool) {
	num := v
	if i := strings.IndexByte(v, ':'); i >= 0 {
		num, msg, hasMsg = v[:i], v[i+1:], true
	}
	digits := num
	if strings.HasPrefix(digits, "-") || strings.HasPrefix(digits, "+") {
		// (a sign, either one: the header's grammar is whatever strconv.ParseInt takes; "+0" is the code 0)
		digits = digits[1:]
	}
	if digits == "" {
		return 0, "", false, false
	}
	for _, ch := range digits {
		if ch < '0' || ch > '9' {
			return 0, "", false, false
		}
	}
	n, err := strconv.ParseInt(num, 10, 32)
	if err != nil {
		return 0, "", false, false
	}
	return uint32(int32(n)), msg, hasMsg, true
}

// c14Reply: whatever a server or an intermediary answers to a unary call, the caller derives the outcome by
// the rules of the statement: a well-formed status header decides (exact code and message); without one,
// 2xx alone means OK; and OK is reported as success only with a response that decodes - the message handed
// to the caller is then exactly the decoding of the body.
func c14Reply(c c14Case, o *Outcome) *Outcome {
	hdr := http.Header{}
	if c.HasGS {
		hdr["X-Grpc-Status"] = []string{c.GS}
	}
	if len(c.Details) > 0 {
		hdr["X-Grpc-Details"] = append([]string{}, c.Details...)
	}
	if c.CT != "" {
		hdr["Content-Type"] = []string{c.CT}
	}
	ch := &httpgrpc.Channel{BaseURL: baseURL, Transport: rtFunc(func(r *http.Request) (*http.Response, error) {
		go io.Copy(io.Discard, r.Body)
		return &http.Response{StatusCode: c.HTTP, Status: fmt.Sprintf("%d %s", c.HTTP, http.StatusText(c.HTTP)), Proto: "HTTP/1.1", ProtoMajor: 1, ProtoMinor: 1,
			Header: hdr, Body: io.NopCloser(bytes.NewReader(c.Raw)), Request: r}, nil
	})}
	resp := &pb.Message{Count: 424242}
	var err error
	var pnc interface{}
	func() {
		defer func() { pnc = recover() }()
		err = ch.Invoke(context.Background(), mUnary, &pb.Message{}, resp)
	}()
	if pnc != nil {
		return o.failf("reply HTTP %d, X-GRPC-Status %q (present=%v): client panicked: %v", c.HTTP, c.GS, c.HasGS, pnc)
	}
	is2xx := c.HTTP >= 200 && c.HTTP < 300
	code, msg, hasMsg, wellFormed := c14HeaderCode(c.GS)
	o.class("reply/%dxx/header=%v/wellformed=%v", c.HTTP/100, c.HasGS, c.HasGS && wellFormed)
	o.NonTrivial = true
	o.Observed = map[string]interface{}{"client_code": uint32(status.Code(err)), "err": fmt.Sprint(err)}
	switch {
	case c.HasGS && wellFormed && code != 0:
		if err == nil {
			return o.failf("reply HTTP %d with X-GRPC-Status %q reported as success", c.HTTP, c.GS)
		}
		st, ok := status.FromError(err)
		if !ok || uint32(st.Code()) != code {
			return o.failf("reply HTTP %d with X-GRPC-Status %q: caller got %v, want code %d", c.HTTP, c.GS, err, code)
		}
		if hasMsg && st.Message() != msg {
			return o.failf("reply with X-GRPC-Status %q: caller got message %q", c.GS, st.Message())
		}
		return o
	case c.HasGS && wellFormed && code == 0 && !is2xx:
		return o // an OK status header on a non-2xx reply: the statement takes no side
	case c.HasGS && !wellFormed && c.GS != "":
		// garbage in the header: nothing is promised beyond "non-2xx is never success"
		if !is2xx && err == nil {
			return o.failf("reply HTTP %d with unparseable X-GRPC-Status %q reported as success", c.HTTP, c.GS)
		}
		if is2xx && err != nil {
			return o
		}
	}
	if !is2xx {
		if err == nil {
			return o.failf("reply HTTP %d without a gRPC status reported as success", c.HTTP)
		}
		if _, ok := status.FromError(err); !ok || status.Code(err) == codes.OK {
			return o.failf("reply HTTP %d without a gRPC status: error is not a non-OK status: %v", c.HTTP, err)
		}
		return o
	}
	// derived OK: success exactly when the body decodes, and then with exactly that message
	want := new(pb.Message)
	decErr := proto.Unmarshal(c.Raw, want)
	if decErr != nil {
		if err == nil {
			return o.failf("reply HTTP %d, derived OK, body of %d bytes does not decode (%v): reported as success with %v", c.HTTP, len(c.Raw), decErr, resp)
		}
		return o
	}
	if err != nil {
		return o.failf("reply HTTP %d, derived OK, body decodes: caller got %v", c.HTTP, err)
	}
	if !proto.Equal(resp, want) {
		return o.failf("reply HTTP %d: caller's response %v is not the decoding of the body %v", c.HTTP, resp, want)
	}
	return o
}

var c14Codes = []uint32{0, 1, 2, 3, 4, 5, 6, 7, 8, 9, 10, 11, 12, 13, 14, 15, 16, 17, 18, 99, 255, 1000, 1<<31 - 1, 1 << 31, 1<<32 - 1}

func c14Enumerate() []c14Case {
	var cs []c14Case
	for _, code := range c14Codes {
		for _, canc := range []bool{false, true} {
			for _, r := range []string{"default", "nothing", "teapot", "option-default", "ok-text", "ok-empty-proto", "no-content"} {
				for _, car := range []string{"server", "mux"} {
					cs = append(cs, c14Case{Mode: "forward", Code: code, Msg: "m", Cancelled: canc, Renderer: r, Carrier: car})
					cs = append(cs, c14Case{Mode: "forward", Code: code, Msg: "m", Cancelled: canc, Renderer: r, Carrier: car, KnownLen: true})
					if !canc {
						cs = append(cs, c14Case{Mode: "forward", Code: code, Msg: "", Cancelled: canc, Renderer: r, Carrier: car})
					}
					if code == 1 || code == 4 || code == 2 {
						// the handler's own deadline (from GRPC-Timeout) has passed, the HTTP request is alive:
						// the 499 rule is about the request, not about that deadline
						cs = append(cs, c14Case{Mode: "forward", Code: code, Msg: "m", Cancelled: canc, Renderer: r, Carrier: car, Timeout: "1n"})
					}
					if code == 0 && !canc {
						cs = append(cs, c14Case{Mode: "forward", OKErr: true, Renderer: r, Carrier: car})
					}
				}
			}
		}
	}
	for st := 100; st <= 599; st++ {
		for _, stream := range []bool{false, true} {
			for _, b := range []string{"empty", "text"} {
				cs = append(cs, c14Case{Mode: "fallback", HTTP: st, Stream: stream, Body: b})
			}
		}
	}
	return cs
}

func genC14Reply(t *rapid.T) c14Case {
	c := c14Case{Mode: "reply"}
	c.HTTP = rapid.OneOf(rapid.IntRange(100, 599), rapid.SampledFrom([]int{200, 200, 204, 299, 300, 199, 404, 500, 502})).Draw(t, "http")
	c.HasGS = rapid.IntRange(0, 3).Draw(t, "hasgs") != 0
	if c.HasGS {
		c.GS = rapid.OneOf(
			rapid.Custom(func(t *rapid.T) string {
				return fmt.Sprintf("%d:%s", rapid.OneOf(rapid.Int32Range(-2, 20), rapid.Int32()).Draw(t, "gscode"), rapid.OneOf(rapid.Just(""), rapid.StringMatching(`[ -~]{0,20}`), rapid.String()).Draw(t, "gsmsg"))
			}),
			rapid.Custom(func(t *rapid.T) string {
				return strconv.Itoa(rapid.IntRange(-1, 17).Draw(t, "gscodeonly"))
			}),
			rapid.SampledFrom([]string{"", ":", ":x", "x:y", "0", "0:", "00:x", "+5:plus", " 5:sp", "5 :sp", "0x5:hex", "5.0:f", "2147483648:big", "-2147483649:small", "4294967295:u32", "99999999999:huge", "5:a:b", "1e1:exp", "٥:arabic"}),
			rapid.String(),
		).Draw(t, "gs")
	}
	nd := rapid.SampledFrom([]int{0, 0, 0, 1, 2}).Draw(t, "ndetails")
	for i := 0; i < nd; i++ {
		c.Details = append(c.Details, rapid.OneOf(rapid.SampledFrom([]string{"", "!!", "AA", "CgF4EgF5"}), rapid.StringMatching(`[A-Za-z0-9_-]{0,24}`)).Draw(t, "detail"))
	}
	c.CT = rapid.SampledFrom([]string{"", httpgrpc.UnaryRpcContentType_V1, "application/json", "text/plain; charset=utf-8", "text/html"}).Draw(t, "replyct")
	switch rapid.IntRange(0, 4).Draw(t, "bodyclass") {
	case 0:
	case 1, 2:
		m := genMsg(t, "reply", 4096)
		c.Raw = mustMarshal(m.Build())
		if rapid.IntRange(0, 3).Draw(t, "bodycut") == 0 && len(c.Raw) > 0 {
			c.Raw = c.Raw[:rapid.IntRange(0, len(c.Raw)-1).Draw(t, "bodycutat")]
		}
	case 3:
		c.Raw = rapid.SliceOfN(rapid.Byte(), 0, 64).Draw(t, "bodyraw")
	default:
		c.Raw = []byte(rapid.SampledFrom([]string{"OK\n", "<html><body>502 Bad Gateway</body></html>", "{}", `{"count":1}`, "Not Found\n"}).Draw(t, "bodytext"))
	}
	return c
}

func genC14(t *rapid.T) c14Case {
	if rapid.IntRange(0, 3).Draw(t, "replymode") == 0 {
		return genC14Reply(t)
	}
	if rapid.IntRange(0, 29).Draw(t, "sequence") == 0 {
		return c14Case{Mode: "sequence", Seq: rapid.SliceOfN(rapid.Uint32Range(0, 16), 2, 6).Draw(t, "seq"), MaxConns: rapid.SampledFrom([]int{0, 1, 1, 2}).Draw(t, "maxconns"),
			Renderer: rapid.SampledFrom([]string{"default", "default", "teapot", "ok-text"}).Draw(t, "seqrenderer"), Carrier: rapid.SampledFrom([]string{"server", "mux"}).Draw(t, "seqcarrier")}
	}
	if rapid.IntRange(0, 3).Draw(t, "mode") == 0 {
		return c14Case{Mode: "fallback", HTTP: rapid.IntRange(100, 599).Draw(t, "http"), Stream: rapid.Bool().Draw(t, "stream"),
			Body: rapid.SampledFrom([]string{"empty", "text"}).Draw(t, "body")}
	}
	code := rapid.OneOf(rapid.Uint32Range(0, 20), rapid.Uint32(), rapid.SampledFrom(c14Codes)).Draw(t, "code")
	return c14Case{Mode: "forward", Code: code,
		Msg: rapid.OneOf(rapid.Just(""), rapid.Just(":"), rapid.StringMatching(`[a-zA-Z0-9:%;,./ _-]{0,40}[a-zA-Z0-9]`),
			// messages of several lines and other control characters (validation reports, joined errors, stack traces): what
			// becomes of such a message in an HTTP header is C02's subject, the code has to come through all the same
			rapid.SampledFrom([]string{"line1\nline2", "a\r\nb", "tab\there", "first: bad\nsecond: worse\n", "\"quoted\"", "back\\slash"})).Draw(t, "msg"),
		Cancelled:  rapid.Bool().Draw(t, "cancelled"),
		Renderer:   rapid.SampledFrom([]string{"default", "nothing", "teapot", "option-default", "ok-text", "ok-empty-proto", "no-content"}).Draw(t, "renderer"),
		Carrier:    rapid.SampledFrom([]string{"server", "mux"}).Draw(t, "carrier"),
		Timeout:    rapid.SampledFrom([]string{"", "", "1n", "0m", "1H"}).Draw(t, "timeout"),
		Wrapped:    rapid.IntRange(0, 3).Draw(t, "wrapped") == 0,
		CutErrBody: rapid.IntRange(0, 3).Draw(t, "cuterrbody") == 0,
		MDOpts:     rapid.IntRange(0, 2).Draw(t, "mdopts") == 0,
		KnownLen:   rapid.Bool().Draw(t, "knownlen"),
		RespToo:    rapid.IntRange(0, 2).Draw(t, "resptoo") == 0}
}

func init() { registerReplay("C14", propC14) }

const c14Rule = "exhaustive grid {25 gRPC codes incl. out-of-range} x {request ctx cancelled or not} x {7 renderers: default, via option, silent, 418 page, 200 with a text body, 200 with a decodable body, 204} x {Server, HandleServices} (forward: HTTP status by documented table + client recovers exact code) " +
	"and every HTTP status 100..599 x {Invoke, NewStream} x {empty, text body} without X-GRPC-Status (fallback: OK iff 2xx), plus rapid-drawn codes over all of uint32 with drawn messages; " +
	"and arbitrary unary replies (HTTP status x X-GRPC-Status present/absent/well-formed/garbage x details headers x content types x bodies: encoded messages whole or cut, random bytes, proxy texts) through a replaying RoundTripper (reply mode; also FuzzUnaryReply in the thorough tier): well-formed non-OK header => exactly that code and message, no header => OK iff 2xx, non-2xx never success, derived OK => success iff the body decodes and then the caller's message is the decoding of the body, never a panic; " +
	"also generated since the seeded rounds: empty status messages, GRPC-Timeout on the request, wrapped status errors, grpc.Header/grpc.Trailer call options on the recovering client, failing handlers that return a response next to their error; " +
	"non-trivial = any case except a forward case with code OK; distinct by case hash"

// FuzzUnaryReply: coverage-guided search over unary replies presented to the client.
func FuzzUnaryReply(f *testing.F) {
	f.Add(uint16(200), true, "0:OK", "", "application/x-protobuf", []byte{})
	f.Add(uint16(500), true, "13:boom", "CgF4EgF5", "application/x-protobuf", []byte{})
	f.Add(uint16(200), false, "", "", "text/plain", []byte("OK\n"))
	f.Add(uint16(404), false, "", "", "text/plain", []byte("Not Found\n"))
	f.Add(uint16(200), true, "-1:neg", "!!", "", []byte{0x08, 0x01})
	f.Add(uint16(219), true, "+0", "", "0", []byte("0")) // a signed code: "+0" is the code 0
	f.Add(uint16(299), true, "2147483647:max", "", "", []byte{0x0a, 0x03, 1, 2})
	f.Add(uint16(200), true, ":", "", "", []byte{0xff})
	f.Add(uint16(245), true, "00000000000", "", "0", []byte("0")) // found by a campaign: a zero of eleven digits is still code 0
	f.Fuzz(func(t *testing.T, httpStatus uint16, hasGS bool, gs, detail, ct string, body []byte) {
		c := c14Case{Mode: "reply", HTTP: 100 + int(httpStatus)%500, HasGS: hasGS, GS: gs, CT: ct, Raw: body}
		if detail != "" {
			c.Details = []string{detail}
		}
		if o := propC14(c); o.Fail != "" {
			t.Fatalf("C14: %s", o.Fail)
		}
	})
}

func TestC14(t *testing.T) {
	rec("C14").rule = c14Rule
	rec("C14").exhaust = true
	runEnum(t, "C14", c14Enumerate(), propC14)
	if t.Failed() {
		return
	}
	runProp(t, "C14", c14Rule, genC14, propC14)
}
