package harness

// C16 — server interceptors wrap every handler once, in order, without side effects.

import (
	"context"
	"errors"
	"fmt"
	"net/http"
	"reflect"
	"strings"
	"sync"
	"testing"

	"google.golang.org/grpc"
	"google.golang.org/grpc/codes"
	"google.golang.org/grpc/metadata"
	"google.golang.org/grpc/status"
	"pgregory.net/rapid"

	"github.com/fullstorydev/grpchan"
	pb "github.com/fullstorydev/grpchan/grpchantesting"
	"github.com/fullstorydev/grpchan/httpgrpc"
	"github.com/fullstorydev/grpchan/inprocgrpc"
)

// behaviours: pass | sc-err | sc-resp | rw-req | rw-resp | rw-err  (streams: pass | sc-err | sc-ok | rw-err)
type c16Layer struct {
	Via    string // desc (InterceptServer) | reg (WithInterceptor)
	Unary  string // "" = nil interceptor
	Stream string
}

type c16Case struct {
	Carrier     string // direct | inproc | http | httpmux
	NUnary      int
	Streams     []c15Stream
	Layers      []c16Layer
	Base        string // HTTP carriers: base path on both sides ("" = "/")
	ClientBidi  bool   // the client opens streams with a {client,server}-streaming descriptor whatever the method's flags (as generic proxies do)
	SiblingView bool   // a second WithInterceptor view of the same parent registry is created before the service is registered through ours
	Twin        bool   // in-process: a second service with the same short method names (other flags) is registered on the channel and called first
	LateInt     bool   // in-process: the channel's interceptors are configured after the service was registered
	NoSlash     bool   // the client names the method without the leading slash (both transports accept that); interceptors are still told the canonical name
	Shared      bool   // the same decorated description is registered with a second carrier that has its own transport interceptors
	TUnary2     string
	TStream2    string
	tid         string
	TUnary      string // transport-level unary interceptor behaviour ("" = nil)
	TStream     string
	CallStream  bool // which method is called
	Index       int  // index among the unary / stream methods
	HandlerFail bool
	// HandlerPlain (with HandlerFail): the handler returns a plain Go error value; every interceptor on the way
	// out is handed that very value (error mapping by identity works)
	HandlerPlain bool
	// HandlerBoth (with HandlerFail, unary): the handler returns a response value next to its error; every
	// interceptor on the way out sees both
	HandlerBoth bool
	// MoreSends: streaming clients send this many further messages before they close and start receiving
	MoreSends int `json:",omitempty"`
	// DoneCtx (direct dispatch): the RPC's context is already done when the decorated handler is entered (a caller
	// that gave up, a deadline that passed while an outer interceptor worked): what to do about it is for the
	// interceptors and the handler to decide - every one of them still runs
	DoneCtx bool `json:",omitempty"`
	// Reconfig: in-process: the channel had other interceptors before and is then configured with the ones of the case
	// (nil included); httpgrpc.NewServer: an ErrorRenderer option follows the interceptor options
	Reconfig bool `json:",omitempty"`
}

type c16Log struct {
	mu sync.Mutex
	ev []string
}

func (l *c16Log) add(format string, a ...interface{}) {
	l.mu.Lock()
	l.ev = append(l.ev, fmt.Sprintf(format, a...))
	l.mu.Unlock()
}

type c16CtxKey struct{}

// c16Marks lists the interceptors (ids) whose derived context is visible from ctx.
func c16Marks(ctx context.Context) string {
	m, _ := ctx.Value(c16CtxKey{}).([]string)
	return strings.Join(m, "+")
}

func c16Mark(ctx context.Context, id string) context.Context {
	m, _ := ctx.Value(c16CtxKey{}).([]string)
	return context.WithValue(ctx, c16CtxKey{}, append(append([]string{}, m...), id))
}

type c16CtxStream struct {
	grpc.ServerStream
	ctx context.Context
}

func (s *c16CtxStream) Context() context.Context { return s.ctx }

func c16UnaryInt(id string, beh string, lg *c16Log, wantMethod string) grpc.UnaryServerInterceptor {
	if beh == "" {
		return nil
	}
	n := int32(len(id))
	return func(ctx context.Context, req interface{}, info *grpc.UnaryServerInfo, handler grpc.UnaryHandler) (interface{}, error) {
		lg.add("u:%s:%s[%s]", id, info.FullMethod, c16Marks(ctx))
		switch beh {
		case "ctx-val":
			// e.g. an auth interceptor: everything downstream must see the derived context
			ctx = c16Mark(ctx, id)
		case "sc-err":
			return nil, status.Error(codes.PermissionDenied, "denied by "+id)
		case "sc-resp":
			return &pb.Message{Code: 1000 + n}, nil
		case "rw-req":
			m := req.(*pb.Message)
			return handler(ctx, &pb.Message{Count: m.Count + 100*n, Payload: m.Payload})
		}
		resp, err := handler(ctx, req)
		if err != nil && resp != nil && !isNilIface(resp) {
			lg.add("u-exit:%s+resp", id) // a response came back next to the error: results pass through unchanged
		} else {
			lg.add("u-exit:%s", id)
		}
		switch beh {
		case "rw-resp":
			if err == nil {
				m := resp.(*pb.Message)
				return &pb.Message{Count: m.Count, Code: m.Code + 10*n}, nil
			}
		case "rw-err":
			return nil, status.Error(codes.Aborted, "rewritten by "+id)
		case "map-err":
			// error mapping by identity: works only if the interceptor is handed the handler's own error value
			if err == c16ErrSentinel {
				return nil, status.Error(codes.NotFound, "mapped by "+id)
			}
		}
		return resp, err
	}
}

func c16StreamInt(id string, beh string, lg *c16Log) grpc.StreamServerInterceptor {
	if beh == "" {
		return nil
	}
	return func(srv interface{}, ss grpc.ServerStream, info *grpc.StreamServerInfo, handler grpc.StreamHandler) error {
		lg.add("s:%s:%s:%v:%v[%s]", id, info.FullMethod, info.IsClientStream, info.IsServerStream, c16Marks(ss.Context()))
		switch beh {
		case "ctx-val":
			ss = &c16CtxStream{ServerStream: ss, ctx: c16Mark(ss.Context(), id)}
		case "sc-err":
			return status.Error(codes.PermissionDenied, "denied by "+id)
		case "sc-err-md":
			// refuses the call like sc-err, and says why in headers and trailers
			ss.SetHeader(metadata.Pairs("zz-denied-by", id))
			ss.SetTrailer(metadata.Pairs("zz-denied-reason", "policy"))
			return status.Error(codes.PermissionDenied, "denied by "+id)
		case "sc-ok":
			return nil
		}
		err := handler(srv, ss)
		lg.add("s-exit:%s", id)
		if beh == "rw-err" {
			return status.Error(codes.Aborted, "rewritten by "+id)
		}
		if beh == "map-err" && err == c16ErrSentinel {
			return status.Error(codes.NotFound, "mapped by "+id)
		}
		return err
	}
}

const c16Svc = "verif.I16"

func isNilIface(x interface{}) bool {
	v := reflect.ValueOf(x)
	return v.Kind() == reflect.Ptr && v.IsNil()
}

// c16ErrSentinel: a plain (non-status) error value some handlers return; interceptors see that very value
var c16ErrSentinel = errors.New("record not found")

const c16SentinelCode = codes.Code(9999) // model-only: "the sentinel error, not yet turned into a status"

func (c *c16Case) desc(lg *c16Log) *grpc.ServiceDesc {
	d := &grpc.ServiceDesc{ServiceName: c16Svc, HandlerType: (*svcIface)(nil), Metadata: "i16.proto"}
	for i := 0; i < c.NUnary; i++ {
		name := fmt.Sprintf("U%d", i)
		full := "/" + c16Svc + "/" + name
		d.Methods = append(d.Methods, grpc.MethodDesc{MethodName: name, Handler: func(srv interface{}, ctx context.Context, dec func(interface{}) error, interceptor grpc.UnaryServerInterceptor) (interface{}, error) {
			in := new(pb.Message)
			if err := dec(in); err != nil {
				return nil, err
			}
			h := func(ctx context.Context, req interface{}) (interface{}, error) {
				lg.add("handler:%s[%s]", full, c16Marks(ctx))
				if c.HandlerFail {
					var partial interface{}
					if c.HandlerBoth {
						partial = &pb.Message{Count: 1, Code: 3}
					}
					if c.HandlerPlain {
						return partial, c16ErrSentinel
					}
					return partial, status.Error(codes.DataLoss, "handler failed")
				}
				return &pb.Message{Count: req.(*pb.Message).Count, Code: 7}, nil
			}
			if interceptor == nil {
				return h(ctx, in)
			}
			return interceptor(ctx, in, &grpc.UnaryServerInfo{Server: srv, FullMethod: full}, h)
		}})
	}
	for _, s := range c.Streams {
		full := "/" + c16Svc + "/" + s.Name
		d.Streams = append(d.Streams, grpc.StreamDesc{StreamName: s.Name, ClientStreams: s.CS, ServerStreams: s.SS, Handler: func(srv interface{}, stream grpc.ServerStream) error {
			lg.add("handler:%s[%s]", full, c16Marks(stream.Context()))
			for stream.RecvMsg(new(pb.Message)) == nil {
			}
			if c.HandlerFail {
				if c.HandlerPlain {
					return c16ErrSentinel
				}
				return status.Error(codes.DataLoss, "handler failed")
			}
			return nil
		}})
	}
	return d
}

type descSnap struct {
	name     string
	meta     interface{}
	methods  []string
	mptr     uintptr
	sptr     uintptr
	handlers []uintptr
}

func snapDesc(d *grpc.ServiceDesc) descSnap {
	s := descSnap{name: d.ServiceName, meta: d.Metadata}
	if len(d.Methods) > 0 {
		s.mptr = reflect.ValueOf(d.Methods).Pointer()
	}
	if len(d.Streams) > 0 {
		s.sptr = reflect.ValueOf(d.Streams).Pointer()
	}
	for _, m := range d.Methods {
		s.methods = append(s.methods, "u:"+m.MethodName)
		s.handlers = append(s.handlers, reflect.ValueOf(m.Handler).Pointer())
	}
	for _, m := range d.Streams {
		s.methods = append(s.methods, fmt.Sprintf("s:%s:%v:%v", m.StreamName, m.ClientStreams, m.ServerStreams))
		s.handlers = append(s.handlers, reflect.ValueOf(m.Handler).Pointer())
	}
	return s
}

// model: expected event log and result.
func (c *c16Case) model() (log []string, count, code int32, errCode codes.Code) {
	type ic struct{ id, beh string }
	var chain []ic
	pick := func(l c16Layer) string {
		if c.CallStream {
			return l.Stream
		}
		return l.Unary
	}
	if t := map[bool]string{false: c.TUnary, true: c.TStream}[c.CallStream]; t != "" {
		tid := c.tid
		if tid == "" {
			tid = "T"
		}
		chain = append(chain, ic{tid, t})
	}
	// decoration order: see intercept.go - the last InterceptServer applied is the outermost;
	// registry views apply their decoration when registering, so for "reg" layers the first
	// (closest to the real registry) ends up outermost.
	var descLayers, regLayers []ic
	for i, l := range c.Layers {
		if pick(l) == "" {
			continue
		}
		e := ic{fmt.Sprintf("L%d", i), pick(l)}
		if l.Via == "desc" {
			descLayers = append(descLayers, e)
		} else {
			regLayers = append(regLayers, e)
		}
	}
	// registry views decorate after the explicit InterceptServer calls: first reg layer outermost
	chain = append(chain, regLayers...)
	for i := len(descLayers) - 1; i >= 0; i-- {
		chain = append(chain, descLayers[i])
	}
	var full string
	if c.CallStream {
		full = "/" + c16Svc + "/" + c.Streams[c.Index].Name
	} else {
		full = fmt.Sprintf("/%s/U%d", c16Svc, c.Index)
	}
	both := false // the failing handler's response value is still travelling next to the error
	var run func(k int, cnt int32, marks []string) (int32, int32, codes.Code)
	run = func(k int, cnt int32, marks []string) (int32, int32, codes.Code) {
		ms := strings.Join(marks, "+")
		if k == len(chain) {
			log = append(log, "handler:"+full+"["+ms+"]")
			if c.HandlerFail {
				both = c.HandlerBoth && !c.CallStream
				if c.HandlerPlain {
					return 0, 0, c16SentinelCode
				}
				return 0, 0, codes.DataLoss
			}
			return cnt, 7, codes.OK
		}
		e := chain[k]
		n := int32(len(e.id))
		next := marks
		if e.beh == "ctx-val" {
			next = append(append([]string{}, marks...), e.id)
		}
		if c.CallStream {
			s := c.Streams[c.Index]
			log = append(log, fmt.Sprintf("s:%s:%s:%v:%v[%s]", e.id, full, s.CS, s.SS, ms))
			switch e.beh {
			case "sc-err", "sc-err-md":
				return 0, 0, codes.PermissionDenied
			case "sc-ok":
				return 0, 0, codes.OK
			}
			a, b, ec := run(k+1, cnt, next)
			log = append(log, "s-exit:"+e.id)
			if e.beh == "rw-err" {
				return 0, 0, codes.Aborted
			}
			if e.beh == "map-err" && ec == c16SentinelCode {
				return 0, 0, codes.NotFound
			}
			return a, b, ec
		}
		log = append(log, fmt.Sprintf("u:%s:%s[%s]", e.id, full, ms))
		switch e.beh {
		case "sc-err":
			return 0, 0, codes.PermissionDenied
		case "sc-resp":
			return 0, 1000 + n, codes.OK
		case "rw-req":
			return run(k+1, cnt+100*n, next)
		}
		a, b, ec := run(k+1, cnt, next)
		if ec != codes.OK && both {
			log = append(log, "u-exit:"+e.id+"+resp")
		} else {
			log = append(log, "u-exit:"+e.id)
		}
		switch e.beh {
		case "rw-resp":
			if ec == codes.OK {
				return a, b + 10*n, ec
			}
		case "rw-err":
			both = false
			return 0, 0, codes.Aborted
		case "map-err":
			if ec == c16SentinelCode {
				both = false
				return 0, 0, codes.NotFound
			}
		}
		return a, b, ec
	}
	count, code, errCode = run(0, 5, nil)
	if errCode == c16SentinelCode {
		errCode = codes.Unknown // a plain error nobody mapped reaches the caller as Unknown
	}
	return
}

func propC16(c c16Case) *Outcome {
	o := &Outcome{}
	lg := &c16Log{}
	orig := c.desc(lg)
	before := snapDesc(orig)
	o.class("carrier=%s/stream=%v/layers=%d", c.Carrier, c.CallStream, len(c.Layers))
	// explicit descriptor decoration first (in order), registry views around the carrier's registry
	d := orig
	for i, l := range c.Layers {
		if l.Via != "desc" {
			continue
		}
		nd := grpchan.InterceptServer(d, c16UnaryInt(fmt.Sprintf("L%d", i), l.Unary, lg, ""), c16StreamInt(fmt.Sprintf("L%d", i), l.Stream, lg))
		if l.Unary == "" && l.Stream == "" && nd != d {
			return o.failf("InterceptServer with no interceptors returned a different descriptor")
		}
		d = nd
	}
	wrapReg := func(r grpc.ServiceRegistrar) grpc.ServiceRegistrar {
		var parent grpc.ServiceRegistrar
		// the first reg layer must end up outermost, i.e. closest to the real registry
		for i := 0; i < len(c.Layers); i++ {
			l := c.Layers[i]
			if l.Via != "reg" {
				continue
			}
			nr := grpchan.WithInterceptor(r, c16UnaryInt(fmt.Sprintf("L%d", i), l.Unary, lg, ""), c16StreamInt(fmt.Sprintf("L%d", i), l.Stream, lg))
			if l.Unary == "" && l.Stream == "" && !sameRegistrar(nr, r) {
				return nil
			}
			if !sameRegistrar(nr, r) {
				parent = r
			}
			r = nr
		}
		if c.SiblingView && parent != nil {
			// a second view of the same parent, made after ours and before we register: not our business
			grpchan.WithInterceptor(parent, c16UnaryInt("SIBLING", "sc-err", lg, ""), c16StreamInt("SIBLING", "sc-err", lg))
		}
		return r
	}
	base := c.Base
	if base == "" {
		base = "/"
	}
	// one decorated description may be served by several carriers, each with its own
	// transport-level interceptors (the documented HandlerMap.ForEach pattern)
	runs := [][3]string{{"T", c.TUnary, c.TStream}}
	if c.Shared {
		runs = append(runs, [3]string{"T2", c.TUnary2, c.TStream2})
		o.class("shared-description")
	}
	if base != "/" {
		o.class("base-path")
	}
	for _, rn := range runs {
		lg.mu.Lock()
		lg.ev = nil
		lg.mu.Unlock()
		cc := c
		cc.tid, cc.TUnary, cc.TStream = rn[0], rn[1], rn[2]
		tu := c16UnaryInt(rn[0], rn[1], lg, "")
		ts := c16StreamInt(rn[0], rn[2], lg)
		srvObj := &struct{ x int }{1}
		var conn grpc.ClientConnInterface
		var closer func()
		var directDesc *grpc.ServiceDesc
		switch c.Carrier {
		case "direct":
			hm := grpchan.HandlerMap{}
			r := wrapReg(hm)
			if r == nil {
				return o.failf("WithInterceptor with no interceptors returned a different registry")
			}
			r.RegisterService(d, srvObj)
			directDesc, _ = hm.QueryService(c16Svc)
		case cInproc:
			ch := &inprocgrpc.Channel{}
			configure := func() {
				if c.Reconfig {
					// the channel was configured differently before (another mode of the program, a shared test channel):
					// what it is configured with now is what applies - also when that is "none"
					ch.WithServerUnaryInterceptor(c16UnaryInt("STALE", "sc-err", lg, ""))
					ch.WithServerStreamInterceptor(c16StreamInt("STALE", "sc-err", lg))
					ch.WithServerUnaryInterceptor(tu)
					ch.WithServerStreamInterceptor(ts)
					return
				}
				if tu != nil {
					ch.WithServerUnaryInterceptor(tu)
				}
				if ts != nil {
					ch.WithServerStreamInterceptor(ts)
				}
			}
			if !c.LateInt {
				configure()
			}
			r := wrapReg(ch)
			if r == nil {
				return o.failf("WithInterceptor with no interceptors returned a different registry")
			}
			r.RegisterService(d, srvObj)
			if c.Twin {
				// a second service on the same channel whose methods have the same short names (and other
				// streaming flags); calls to it come first
				td := &grpc.ServiceDesc{ServiceName: c16Svc + "twin", HandlerType: (*svcIface)(nil), Metadata: "twin.proto"}
				for i := 0; i < c.NUnary; i++ {
					td.Methods = append(td.Methods, grpc.MethodDesc{MethodName: fmt.Sprintf("U%d", i), Handler: func(srv interface{}, ctx context.Context, dec func(interface{}) error, interceptor grpc.UnaryServerInterceptor) (interface{}, error) {
						in := new(pb.Message)
						if err := dec(in); err != nil {
							return nil, err
						}
						return &pb.Message{}, nil
					}})
				}
				for _, st := range c.Streams {
					td.Streams = append(td.Streams, grpc.StreamDesc{StreamName: st.Name, ClientStreams: !st.CS, ServerStreams: !st.SS, Handler: func(srv interface{}, stream grpc.ServerStream) error {
						for stream.RecvMsg(new(pb.Message)) == nil {
						}
						return nil
					}})
				}
				ch.RegisterService(td, srvObj)
			}
			if c.LateInt {
				// the channel's interceptors are a property of the channel, consulted per call: configuring
				// them after the services were registered makes no difference
				o.class("interceptors-configured-after-registration")
				configure()
			}
			conn = ch
		case cHTTP, cHTTPMux, cHTTPPer:
			var h http.Handler
			if c.Carrier == cHTTPPer {
				// per-method handlers built from the registered (possibly decorated) description
				hm := grpchan.HandlerMap{}
				r := wrapReg(hm)
				if r == nil {
					return o.failf("WithInterceptor with no interceptors returned a different registry")
				}
				r.RegisterService(d, srvObj)
				mux := http.NewServeMux()
				hm.ForEach(func(rd *grpc.ServiceDesc, rh interface{}) { perMethodMux(mux, base, rd, rh, tu, ts) })
				h = mux
			} else if c.Carrier == cHTTP {
				so := []httpgrpc.ServerOption{httpgrpc.WithBasePath(base)}
				if tu != nil {
					so = append(so, httpgrpc.WithServerUnaryInterceptor(tu))
				}
				if ts != nil {
					so = append(so, httpgrpc.WithServerStreamInterceptor(ts))
				}
				if c.Reconfig {
					// further options after the interceptor options (an error renderer equal to the default one)
					so = append(so, httpgrpc.ErrorRenderer(httpgrpc.DefaultErrorRenderer))
				}
				s := httpgrpc.NewServer(so...)
				r := wrapReg(s)
				if r == nil {
					return o.failf("WithInterceptor with no interceptors returned a different registry")
				}
				r.RegisterService(d, srvObj)
				h = s
			} else {
				hm := grpchan.HandlerMap{}
				r := wrapReg(hm)
				if r == nil {
					return o.failf("WithInterceptor with no interceptors returned a different registry")
				}
				r.RegisterService(d, srvObj)
				mux := http.NewServeMux()
				httpgrpc.HandleServices(mux.HandleFunc, base, hm, tu, ts)
				h = mux
			}
			car := httpCarrierForBase(h, base)
			conn, closer = car.Conn, car.Close
		}
		if closer != nil {
			defer closer()
		}
		wantLog, wantCount, wantCode, wantErr := cc.model()
		o.NonTrivial = o.NonTrivial || len(wantLog) >= 3 || strings.Contains(strings.Join([]string{cc.TUnary, cc.TStream}, ","), "sc-")
		for _, l := range c.Layers {
			if strings.HasPrefix(l.Unary, "sc-") || strings.HasPrefix(l.Stream, "sc-") {
				o.NonTrivial = true
			}
		}
		if c.Twin && c.Carrier == cInproc {
			o.class("twin-service-called-first")
			if s := guard("twin call", func() {
				ctx, cancel := context.WithCancel(context.Background())
				defer cancel()
				if c.CallStream {
					cs, err := conn.NewStream(ctx, &grpc.StreamDesc{ClientStreams: true, ServerStreams: true}, "/"+c16Svc+"twin/"+c.Streams[c.Index].Name)
					if err == nil {
						cs.CloseSend()
						cs.RecvMsg(new(pb.Message))
					}
				} else {
					conn.Invoke(ctx, fmt.Sprintf("/%stwin/U%d", c16Svc, c.Index), &pb.Message{}, new(pb.Message))
				}
			}); s != "" {
				return o.failf("stall: %s", s)
			}
			lg.mu.Lock()
			lg.ev = nil // only the judged call is compared with the model
			lg.mu.Unlock()
		}
		var gotResp *pb.Message
		var gotErr error
		stall := guard("call", func() {
			ctx, cancel := context.WithCancel(context.Background())
			defer cancel()
			if c.Carrier == "direct" {
				if c.DoneCtx {
					cancel()
				}
				if c.CallStream {
					gotErr = c16DirectStream(directDesc, c.Index, srvObj, ts, ctx)
					return
				}
				dec := func(m interface{}) error { m.(*pb.Message).Count = 5; return nil }
				r, err := directDesc.Methods[c.Index].Handler(srvObj, ctx, dec, tu)
				gotErr = err
				if err == nil {
					gotResp, _ = r.(*pb.Message)
				}
				return
			}
			if c.CallStream {
				s := c.Streams[c.Index]
				cdesc := &grpc.StreamDesc{StreamName: s.Name, ClientStreams: s.CS, ServerStreams: s.SS}
				if c.ClientBidi {
					cdesc = &grpc.StreamDesc{StreamName: s.Name, ClientStreams: true, ServerStreams: true}
				}
				name := "/" + c16Svc + "/" + s.Name
				if c.NoSlash && c.Carrier == cInproc {
					name = name[1:]
				}
				cs, err := conn.NewStream(ctx, cdesc, name)
				if err != nil {
					gotErr = err
					return
				}
				cs.SendMsg(&pb.Message{Count: 5})
				if s.CS {
					// a client that sends everything it has before it looks at the outcome
					for i := 0; i < c.MoreSends; i++ {
						if cs.SendMsg(&pb.Message{Count: 5}) != nil {
							break
						}
					}
				}
				cs.CloseSend()
				for i := 0; i < 3; i++ {
					if gotErr = cs.RecvMsg(new(pb.Message)); gotErr != nil {
						break
					}
				}
				if fmt.Sprint(gotErr) == "EOF" {
					gotErr = nil
				}
				return
			}
			out := new(pb.Message)
			name := fmt.Sprintf("/%s/U%d", c16Svc, c.Index)
			if c.NoSlash && c.Carrier == cInproc {
				name = name[1:]
			}
			gotErr = conn.Invoke(ctx, name, &pb.Message{Count: 5}, out)
			if gotErr == nil {
				gotResp = out
			}
		})
		if stall != "" {
			return o.failf("stall: %s", stall)
		}
		lg.mu.Lock()
		gotLog := append([]string{}, lg.ev...)
		lg.mu.Unlock()
		o.Observed = map[string]interface{}{"log": gotLog, "want_log": wantLog, "err": errStr(gotErr), "resp": fmt.Sprint(gotResp)}
		if !sameStrings(gotLog, wantLog) {
			return o.failf("%s: event log %v, expected %v", c.Carrier, gotLog, wantLog)
		}
		if status.Code(gotErr) != wantErr {
			if !(c.CallStream && wantErr == codes.OK && gotErr != nil && !c.Streams[c.Index].SS && c.Carrier != "direct") {
				return o.failf("%s: result %v, expected code %v", c.Carrier, gotErr, wantErr)
			}
			// a single-response stream method whose handler sends nothing legitimately fails on the client
		}
		if !c.CallStream && wantErr == codes.OK {
			if gotResp == nil || gotResp.Count != wantCount || gotResp.Code != wantCode {
				return o.failf("%s: response %v, expected count=%d code=%d", c.Carrier, gotResp, wantCount, wantCode)
			}
		}
	}
	if after := snapDesc(orig); !reflect.DeepEqual(before, after) {
		return o.failf("the original ServiceDesc was modified: %+v -> %+v", before, after)
	}
	return o
}

func sameRegistrar(a, b grpc.ServiceRegistrar) bool {
	va, vb := reflect.ValueOf(a), reflect.ValueOf(b)
	if va.Type() != vb.Type() {
		return false
	}
	switch va.Kind() {
	case reflect.Map, reflect.Ptr:
		return va.Pointer() == vb.Pointer()
	}
	return false
}

// minimal ServerStream for calling a stream handler directly
type c16FakeStream struct {
	grpc.ServerStream
	ctx context.Context
	n   int
}

func (f *c16FakeStream) Context() context.Context { return f.ctx }
func (f *c16FakeStream) RecvMsg(m interface{}) error {
	f.n++
	if f.n > 1 {
		return fmt.Errorf("EOF")
	}
	return nil
}
func (f *c16FakeStream) SendMsg(m interface{}) error  { return nil }
func (f *c16FakeStream) SetHeader(metadata.MD) error  { return nil }
func (f *c16FakeStream) SendHeader(metadata.MD) error { return nil }
func (f *c16FakeStream) SetTrailer(metadata.MD)       {}

func c16DirectStream(d *grpc.ServiceDesc, idx int, srv interface{}, ts grpc.StreamServerInterceptor, ctxs ...context.Context) error {
	sd := d.Streams[idx]
	fs := &c16FakeStream{ctx: context.Background()}
	if len(ctxs) > 0 {
		fs.ctx = ctxs[0]
	}
	if ts != nil {
		info := &grpc.StreamServerInfo{FullMethod: "/" + d.ServiceName + "/" + sd.StreamName, IsClientStream: sd.ClientStreams, IsServerStream: sd.ServerStreams}
		return ts(srv, fs, info, sd.Handler)
	}
	return sd.Handler(srv, fs)
}

var c16UBeh = []string{"", "pass", "pass", "map-err", "ctx-val", "sc-err", "sc-resp", "rw-req", "rw-resp", "rw-err"}
var c16SBeh = []string{"", "pass", "pass", "map-err", "ctx-val", "sc-err", "sc-err-md", "sc-ok", "rw-err"}

func genC16(t *rapid.T) c16Case {
	c := c16Case{Carrier: rapid.SampledFrom([]string{"direct", cInproc, cHTTP, cHTTPMux, cHTTPPer}).Draw(t, "carrier")}
	c.NUnary = rapid.IntRange(0, 4).Draw(t, "nunary")
	ns := rapid.IntRange(0, 4).Draw(t, "nstreams")
	if c.NUnary+ns == 0 {
		ns = 1
	}
	for i := 0; i < ns; i++ {
		c.Streams = append(c.Streams, c15Stream{Name: fmt.Sprintf("S%d", i), CS: rapid.Bool().Draw(t, "cs"), SS: rapid.Bool().Draw(t, "ss")})
	}
	nl := rapid.OneOf(rapid.IntRange(0, 3), rapid.IntRange(0, 7)).Draw(t, "nlayers")
	c.SiblingView = rapid.IntRange(0, 2).Draw(t, "siblingview") == 0
	for i := 0; i < nl; i++ {
		c.Layers = append(c.Layers, c16Layer{Via: rapid.SampledFrom([]string{"desc", "desc", "reg"}).Draw(t, "via"), Unary: rapid.SampledFrom(c16UBeh).Draw(t, "ubeh"), Stream: rapid.SampledFrom(c16SBeh).Draw(t, "sbeh")})
	}
	c.MoreSends = rapid.SampledFrom([]int{0, 0, 1, 2, 3}).Draw(t, "moresends")
	c.Reconfig = rapid.IntRange(0, 3).Draw(t, "reconfig") == 0
	c.TUnary = rapid.SampledFrom(c16UBeh).Draw(t, "tu")
	c.TStream = rapid.SampledFrom(c16SBeh).Draw(t, "ts")
	c.CallStream = rapid.Bool().Draw(t, "callstream")
	if ns == 0 {
		c.CallStream = false
	}
	if c.NUnary == 0 {
		c.CallStream = true // a streaming-only service (subscribe / watch)
	}
	c.DoneCtx = c.Carrier == "direct" && rapid.IntRange(0, 3).Draw(t, "donectx") == 0
	if c.CallStream {
		c.Index = rapid.IntRange(0, ns-1).Draw(t, "idx")
	} else {
		c.Index = rapid.IntRange(0, c.NUnary-1).Draw(t, "idx")
	}
	c.HandlerFail = rapid.IntRange(0, 3).Draw(t, "hfail") == 0
	c.HandlerPlain = c.HandlerFail && rapid.Bool().Draw(t, "hplain")
	c.HandlerBoth = c.HandlerFail && rapid.Bool().Draw(t, "hboth")
	c.ClientBidi = rapid.IntRange(0, 2).Draw(t, "clientbidi") == 0
	c.NoSlash = rapid.IntRange(0, 4).Draw(t, "noslash") == 0
	c.LateInt = rapid.IntRange(0, 3).Draw(t, "lateint") == 0
	c.Twin = rapid.IntRange(0, 3).Draw(t, "twin") == 0
	if isHTTP(c.Carrier) {
		c.Base = rapid.SampledFrom([]string{"", "", "/api/", "/v1/rpc"}).Draw(t, "base")
	}
	if rapid.IntRange(0, 2).Draw(t, "shared") == 0 {
		c.Shared = true
		c.TUnary2 = rapid.SampledFrom(c16UBeh).Draw(t, "tu2")
		c.TStream2 = rapid.SampledFrom(c16SBeh).Draw(t, "ts2")
	}
	return c
}

func init() { registerReplay("C16", propC16) }

const c16Rule = "rapid-generated: descriptor (0..4 unary + 0..4 stream methods, all flag combinations) x 0..3 decoration layers via InterceptServer / WithInterceptor, each with nil or non-nil unary and stream interceptors x transport-level interceptors nil or set x behaviour per interceptor (pass, short-circuit error - also after setting headers and trailers -, short-circuit response, rewrite request, rewrite response, rewrite error) x handler ok/fail, dispatched directly on the decorated descriptor, through the in-process channel, httpgrpc.Server and HandleServices; " +
	"oracle = model interpreter: ordered event log (transport interceptor, decorations outermost first, handler iff everybody calls onward; full method names and stream flags as logged by the interceptors) and final response/status must be equal; snapshot of the original ServiceDesc unchanged; no interceptors => same pointer; " +
	"also generated since the seeded rounds: the same decorated description on a second carrier, non-root base paths, interceptors deriving a context (markers must be visible downstream), clients opening streams with a bidi descriptor whatever the method's flags, slashless method names on the in-process channel, channel interceptors configured after registration, up to 7 decoration layers, a sibling WithInterceptor view of the same parent registry, the per-method HTTP server form, streaming clients that send 1..4 messages before they look at the outcome, direct dispatch with a context that is already done; " +
	"non-trivial = >=2 interceptors in the chain or a short-circuit; distinct by case hash"

func TestC16(t *testing.T) {
	runProp(t, "C16", c16Rule, genC16, propC16)
}
