package harness

import (
	"runtime"
	"strings"
	"unicode/utf8"

	"google.golang.org/grpc"

	"github.com/fullstorydev/grpchan"
)

func newHandlerMap(desc *grpc.ServiceDesc, svc interface{}) grpchan.HandlerMap {
	hm := grpchan.HandlerMap{}
	hm.RegisterService(desc, svc)
	return hm
}

func goroutineDump() string {
	buf := make([]byte, 1<<20)
	n := runtime.Stack(buf, true)
	return string(buf[:n])
}

// sanitizeMsg is the replacement-character sanitising the standard transport applies to
// status messages: every byte that is not part of a valid UTF-8 sequence becomes U+FFFD.
func sanitizeMsg(s string) string {
	var sb strings.Builder
	for len(s) > 0 {
		r, size := utf8.DecodeRuneInString(s)
		if r == utf8.RuneError && size == 1 {
			sb.WriteRune(utf8.RuneError)
		} else {
			sb.WriteString(s[:size])
		}
		s = s[size:]
	}
	out := sb.String()
	// runs of replacement characters are collapsed: whether one invalid run becomes one or
	// several U+FFFD is an encoder detail (strings.ToValidUTF8 vs grpc-go's per-byte rule)
	for strings.Contains(out, "\uFFFD\uFFFD") {
		out = strings.ReplaceAll(out, "\uFFFD\uFFFD", "\uFFFD")
	}
	return out
}
