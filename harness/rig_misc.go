package harness

import (
	"google.golang.org/grpc"

	"github.com/fullstorydev/grpchan"
)

func newHandlerMap(desc *grpc.ServiceDesc, svc interface{}) grpchan.HandlerMap {
	hm := grpchan.HandlerMap{}
	hm.RegisterService(desc, svc)
	return hm
}
