package harness

// In-memory listener for the HTTP carriers, built on net.Pipe (which implements deadlines
// correctly; grpc's bufconn has a race between SetReadDeadline(past) and SetReadDeadline(zero)
// that net/http's background-read abort trips over, yielding spurious "i/o timeout" errors).

import (
	"context"
	"errors"
	"net"
	"sync"
)

type memListener struct {
	ch     chan net.Conn
	done   chan struct{}
	once   sync.Once
	nextID int
	mu     sync.Mutex
}

func newMemListener() *memListener {
	return &memListener{ch: make(chan net.Conn), done: make(chan struct{})}
}

type memAddr string

func (a memAddr) Network() string { return "mem" }
func (a memAddr) String() string  { return string(a) }

type memConn struct {
	net.Conn
	local, remote memAddr
}

func (c memConn) LocalAddr() net.Addr  { return c.local }
func (c memConn) RemoteAddr() net.Addr { return c.remote }

var errMemClosed = errors.New("mem listener closed")

func (l *memListener) Accept() (net.Conn, error) {
	select {
	case c := <-l.ch:
		return c, nil
	case <-l.done:
		return nil, errMemClosed
	}
}

func (l *memListener) Close() error {
	l.once.Do(func() { close(l.done) })
	return nil
}

func (l *memListener) Addr() net.Addr { return memAddr("mem-server:80") }

func (l *memListener) DialContext(ctx context.Context) (net.Conn, error) {
	c, s := net.Pipe()
	l.mu.Lock()
	l.nextID++
	id := l.nextID
	l.mu.Unlock()
	cli := memAddr("10.0.0.1:" + itoa(40000+id))
	select {
	case l.ch <- memConn{Conn: s, local: "10.0.0.2:80", remote: cli}:
		return memConn{Conn: c, local: cli, remote: "10.0.0.2:80"}, nil
	case <-l.done:
		c.Close()
		s.Close()
		return nil, errMemClosed
	case <-ctx.Done():
		c.Close()
		s.Close()
		return nil, ctx.Err()
	}
}

func itoa(n int) string {
	if n == 0 {
		return "0"
	}
	var b [20]byte
	i := len(b)
	for n > 0 {
		i--
		b[i] = byte('0' + n%10)
		n /= 10
	}
	return string(b[i:])
}
