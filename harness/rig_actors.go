package harness

// Actor scheduler: client sender, client receiver and handler are separate goroutines that
// execute one scripted API call per released step. The scheduler releases steps in the order a
// (rapid-drawn) schedule dictates and, after each release, waits until the step has returned
// or its actor is parked inside the library. Soundness never depends on park detection; it
// only makes the explored interleavings reproducible.

import (
	"bytes"
	"context"
	"fmt"
	"io"
	"regexp"
	"runtime"
	"runtime/debug"
	"strconv"
	"strings"
	"sync"
	"sync/atomic"
	"time"

	"google.golang.org/grpc"
	"google.golang.org/grpc/codes"
	"google.golang.org/grpc/metadata"
	"google.golang.org/grpc/status"

	pb "github.com/fullstorydev/grpchan/grpchantesting"
)

// Step is one scheduled API call.
type Step struct {
	Actor string // cs (client sender) | cr (client receiver) | h (handler) | x (scheduler itself)
	Op    string // cs: send, close | cr: recv, header, trailer | h: recv, send, sethdr, sendhdr, settlr, return | x: cancel
	Size  int    `json:",omitempty"` // payload size for send
	Code  uint32 `json:",omitempty"` // status code for return (0 = nil)
}

// Event is one completed (or still pending) step with its result.
type Event struct {
	Seq     int
	DoneSeq int // order of completion
	Step    Step
	Done    bool
	Err     string `json:",omitempty"`
	ErrKind string `json:",omitempty"` // nil | eof | status:<code> | other
	MsgTag  int32  `json:",omitempty"` // Count of the message received (recv) or sent (send)
	// state flags sampled when the step's result was observed
	HandlerReturned bool `json:",omitempty"`
	Cancelled       bool `json:",omitempty"`
	ClientClosed    bool `json:",omitempty"`
	Parked          bool `json:",omitempty"`
}

func errKind(err error) string {
	switch {
	case err == nil:
		return "nil"
	case err == io.EOF:
		return "eof"
	}
	if st, ok := status.FromError(err); ok {
		return "status:" + strconv.Itoa(int(st.Code()))
	}
	return "other"
}

type actor struct {
	name     string
	mu       sync.Mutex
	cond     *sync.Cond
	queue    []Step
	released int
	executed int
	busy     bool
	gid      int
	stopped  bool
	finished chan struct{}
}

func newActor(name string) *actor {
	a := &actor{name: name, finished: make(chan struct{})}
	a.cond = sync.NewCond(&a.mu)
	return a
}

var gidRe = regexp.MustCompile(`^goroutine (\d+) \[`)

func curGID() int {
	var buf [64]byte
	n := runtime.Stack(buf[:], false)
	m := gidRe.FindSubmatch(buf[:n])
	if m == nil {
		return -1
	}
	id, _ := strconv.Atoi(string(m[1]))
	return id
}

// goroutineState returns the scheduler state of goroutine gid ("chan receive", "select", ...).
func goroutineState(gid int) string {
	buf := make([]byte, 256<<10)
	n := runtime.Stack(buf, true)
	needle := []byte(fmt.Sprintf("goroutine %d [", gid))
	i := bytes.Index(buf[:n], needle)
	if i < 0 {
		return "gone"
	}
	rest := buf[i+len(needle) : n]
	j := bytes.IndexByte(rest, ']')
	if j < 0 {
		return "?"
	}
	return string(rest[:j])
}

func blockedState(s string) bool {
	for _, p := range []string{"chan receive", "chan send", "select", "semacquire", "sync.Mutex.Lock", "sync.RWMutex", "sync.Cond.Wait", "IO wait", "sync.WaitGroup.Wait"} {
		if strings.HasPrefix(s, p) {
			return true
		}
	}
	return false
}

// rpcRun holds the state of one scheduled streaming RPC.
type rpcRun struct {
	kind    string
	carrier string
	cs      grpc.ClientStream
	ctx     context.Context
	cancel  context.CancelFunc

	mu              sync.Mutex
	events          []*Event
	seq             int
	doneSeq         int
	handlerReturned bool
	handlerStarted  bool
	cancelled       bool
	clientClosed    bool
	panics          []string
	handlerStatus   uint32
	sentByClient    []int32 // tags of messages the client sent with nil error
	sentByHandler   []int32
	nextTag         int32
	bytesOffered    atomic.Int64 // payload bytes of client sends started
	bytesTaken      atomic.Int64 // payload bytes the handler has received

	actors    map[string]*actor
	hStream   grpc.ServerStream
	hReady    chan struct{}
	hDone     chan struct{}
	handlerFn func()
}

func (r *rpcRun) flags(e *Event) {
	e.HandlerReturned, e.Cancelled, e.ClientClosed = r.handlerReturned, r.cancelled, r.clientClosed
}

func (r *rpcRun) newTag() int32 {
	r.nextTag++
	return r.nextTag
}

// exec performs one step on the calling (actor) goroutine and records the result.
func (r *rpcRun) exec(a *actor, st Step) (stop bool) {
	r.mu.Lock()
	r.seq++
	ev := &Event{Seq: r.seq, Step: st}
	r.events = append(r.events, ev)
	r.mu.Unlock()
	var err error
	var tag int32
	defer func() {
		if p := recover(); p != nil {
			r.mu.Lock()
			r.panics = append(r.panics, fmt.Sprintf("%s %s: %v\n%s", st.Actor, st.Op, p, debug.Stack()))
			ev.Done, ev.Err, ev.ErrKind = true, fmt.Sprint(p), "panic"
			r.mu.Unlock()
		}
	}()
	key := st.Actor + "/" + st.Op
	if st.Actor == "h2" {
		key = "h/" + st.Op
	}
	if st.Actor == "cs2" {
		key = "cs/" + st.Op
	}
	if st.Actor == "cr2" {
		key = "cr/" + st.Op
	}
	switch key {
	case "cs/send":
		tag = r.newTagLocked()
		r.bytesOffered.Add(int64(st.Size))
		err = r.cs.SendMsg(&pb.Message{Count: tag, Payload: fillBytes(st.Size, uint32(tag))})
		if err == nil {
			r.mu.Lock()
			r.sentByClient = append(r.sentByClient, tag)
			r.mu.Unlock()
		}
	case "cs/close":
		// our own close is known before the library sees it
		r.mu.Lock()
		r.clientClosed = true
		r.mu.Unlock()
		err = r.cs.CloseSend()
	case "cr/recv":
		m := new(pb.Message)
		err = r.cs.RecvMsg(m)
		tag = m.Count
	case "cr/header":
		_, err = r.cs.Header()
	case "cr/trailer":
		r.cs.Trailer()
	case "h/recv":
		m := new(pb.Message)
		err = r.hStream.RecvMsg(m)
		tag = m.Count
		if err == nil {
			r.bytesTaken.Add(int64(len(m.Payload)))
		}
	case "h/send":
		tag = r.newTagLocked()
		err = r.hStream.SendMsg(&pb.Message{Count: tag, Payload: fillBytes(st.Size, uint32(tag))})
		if err == nil {
			r.mu.Lock()
			r.sentByHandler = append(r.sentByHandler, tag)
			r.mu.Unlock()
		}
	case "h/sethdr":
		err = r.hStream.SetHeader(metadata.Pairs("zz-h", "1"))
	case "h/sendhdr":
		err = r.hStream.SendHeader(metadata.Pairs("zz-s", "1"))
	case "h/settlr":
		r.hStream.SetTrailer(metadata.Pairs("zz-t", "1"))
	case "h/return":
		r.mu.Lock()
		r.handlerReturned = true
		r.handlerStatus = st.Code
		r.mu.Unlock()
		stop = true
	}
	r.mu.Lock()
	ev.Done, ev.Err, ev.ErrKind, ev.MsgTag = true, errStr(err), errKind(err), tag
	r.doneSeq++
	ev.DoneSeq = r.doneSeq
	r.flags(ev)
	r.mu.Unlock()
	return stop
}

func (r *rpcRun) wasCancelled() bool {
	r.mu.Lock()
	defer r.mu.Unlock()
	return r.cancelled
}

// clientSawFinal: some client receive has returned an error (the stream's final outcome) and the handler is done.
func (r *rpcRun) clientSawFinal() bool {
	r.mu.Lock()
	defer r.mu.Unlock()
	if !r.handlerReturned {
		return false
	}
	for _, e := range r.events {
		if e.Done && (e.Step.Actor == "cr") && e.Step.Op == "recv" && e.ErrKind != "nil" {
			return true
		}
	}
	return false
}

func (r *rpcRun) newTagLocked() int32 {
	r.mu.Lock()
	defer r.mu.Unlock()
	return r.newTag()
}

func (a *actor) loop(r *rpcRun) {
	defer close(a.finished)
	a.mu.Lock()
	a.gid = curGID()
	a.mu.Unlock()
	for {
		a.mu.Lock()
		for a.executed >= a.released && !a.stopped {
			a.cond.Wait()
		}
		if a.executed >= a.released && a.stopped {
			a.mu.Unlock()
			return
		}
		st := a.queue[a.executed]
		a.busy = true
		a.mu.Unlock()
		stop := r.exec(a, st)
		a.mu.Lock()
		a.executed++
		a.busy = false
		a.cond.Broadcast()
		if stop {
			a.stopped = true
			a.executed = len(a.queue)
			a.released = len(a.queue)
			a.mu.Unlock()
			return
		}
		a.mu.Unlock()
	}
}

// release lets the actor run one more step and waits until it has returned or is parked.
func (a *actor) release(r *rpcRun) (parked bool) {
	a.mu.Lock()
	if a.released >= len(a.queue) {
		a.mu.Unlock()
		return false
	}
	a.released++
	target := a.released
	a.cond.Broadcast()
	a.mu.Unlock()
	deadline := time.Now().Add(25 * time.Millisecond)
	for spins := 0; ; spins++ {
		a.mu.Lock()
		done := a.executed >= target || a.stopped
		gid := a.gid
		a.mu.Unlock()
		if done {
			return false
		}
		if spins < 200 {
			runtime.Gosched()
			continue
		}
		if spins%20 == 0 && gid > 0 && blockedState(goroutineState(gid)) {
			return true
		}
		if time.Now().After(deadline) {
			return true
		}
		time.Sleep(20 * time.Microsecond)
	}
}

func (a *actor) releaseAll(extra ...Step) {
	a.mu.Lock()
	if !a.stopped {
		a.queue = append(a.queue, extra...)
		a.released = len(a.queue)
	}
	a.cond.Broadcast()
	a.mu.Unlock()
}

func (a *actor) gidOf() int {
	a.mu.Lock()
	defer a.mu.Unlock()
	return a.gid
}

func (a *actor) stop() {
	a.mu.Lock()
	a.stopped = true
	a.cond.Broadcast()
	a.mu.Unlock()
}

func waitActors(d time.Duration, as ...*actor) bool {
	t := time.NewTimer(d)
	defer t.Stop()
	for _, a := range as {
		select {
		case <-a.finished:
		case <-t.C:
			return false
		}
	}
	return true
}

// waitActorsIdle waits until every actor has executed everything released to it.
func waitActorsIdle(d time.Duration, as ...*actor) bool {
	deadline := time.Now().Add(d)
	for {
		all := true
		for _, a := range as {
			a.mu.Lock()
			if a.executed < a.released && !a.stopped {
				all = false
			}
			a.mu.Unlock()
		}
		if all {
			return true
		}
		if time.Now().After(deadline) {
			return false
		}
		time.Sleep(100 * time.Microsecond)
	}
}

// libraryGoroutines counts goroutines that are executing grpchan code (or sit in the request
// pipe it owns).
func libraryGoroutines() (n int, dump string) {
	buf := make([]byte, 1<<20)
	k := runtime.Stack(buf, true)
	var sb strings.Builder
	for _, g := range strings.Split(string(buf[:k]), "\n\n") {
		if strings.Contains(g, "github.com/fullstorydev/grpchan/") || strings.Contains(g, "io.(*pipe).") {
			n++
			sb.WriteString(g)
			sb.WriteString("\n\n")
		}
	}
	return n, sb.String()
}

func statusOfCode(c uint32) error {
	if c == 0 {
		return nil
	}
	return status.Error(codes.Code(c), "scripted")
}
