package harness

// Evidence recording, known-finding bookkeeping, replay plumbing and the generic
// rapid runner shared by every property check.

import (
	"encoding/binary"
	"encoding/json"
	"fmt"
	"hash/fnv"
	"os"
	"path/filepath"
	"runtime/debug"
	"sort"
	"strings"
	"sync"
	"testing"
	"time"

	"pgregory.net/rapid"
)

// Outcome is what a property function reports for one case.
type Outcome struct {
	// Fail is non-empty when the oracle was violated.
	Fail string
	// Observed is attached to the replay file (history, observed values...).
	Observed interface{}
	// NonTrivial says whether the case is non-trivial by the property's stated rule.
	NonTrivial bool
	// Classes label the case for the distribution histogram.
	Classes []string
	// Known lists known-finding signatures this case ran into (treated as pass).
	Known []string
	// Inconclusive is non-empty when the harness could not decide (never a violation).
	Inconclusive string
	// Sub counts extra evaluations done inside one case (repetitions, offsets...).
	Sub int
}

func (o *Outcome) class(format string, a ...interface{}) {
	o.Classes = append(o.Classes, fmt.Sprintf(format, a...))
}

func (o *Outcome) failf(format string, a ...interface{}) *Outcome {
	if o.Fail == "" {
		o.Fail = fmt.Sprintf(format, a...)
	}
	return o
}

type recorder struct {
	mu        sync.Mutex
	prop      string
	rule      string
	evals     int
	subEvals  int
	hashes    map[uint64]struct{}
	classes   map[string]int
	samples   []json.RawMessage
	nsampled  int
	known     map[string]int
	failures  int
	inconcl   []string
	exhaust   bool
	extra     map[string]interface{}
	firstFail json.RawMessage
	lastFail  json.RawMessage
	started   time.Time
}

var (
	recMu sync.Mutex
	recs  = map[string]*recorder{}
)

func rec(prop string) *recorder {
	recMu.Lock()
	defer recMu.Unlock()
	r := recs[prop]
	if r == nil {
		r = &recorder{prop: prop, hashes: map[uint64]struct{}{}, classes: map[string]int{}, known: map[string]int{}, extra: map[string]interface{}{}, started: time.Now()}
		recs[prop] = r
	}
	return r
}

func hashBytes(b []byte) uint64 {
	h := fnv.New64a()
	h.Write(b)
	return h.Sum64()
}

const maxSamples = 12

// sampleKeep decides (deterministically, from the running count) whether the n-th
// non-trivial case is kept as a sample: the first few, then exponentially spaced ones.
func sampleKeep(n int) bool {
	if n < 4 {
		return true
	}
	return n&(n-1) == 0 // powers of two
}

func truncJSON(b []byte) json.RawMessage {
	const lim = 6000
	if len(b) <= lim {
		return json.RawMessage(b)
	}
	s, _ := json.Marshal(string(b[:lim]) + fmt.Sprintf("...(%d bytes of case JSON truncated)", len(b)-lim))
	return json.RawMessage(s)
}

func (r *recorder) record(caseJSON []byte, o *Outcome) {
	r.mu.Lock()
	defer r.mu.Unlock()
	r.evals++
	r.subEvals += o.Sub
	for _, c := range o.Classes {
		r.classes[c]++
	}
	for _, k := range o.Known {
		r.known[k]++
	}
	if o.Inconclusive != "" && len(r.inconcl) < 20 {
		r.inconcl = append(r.inconcl, o.Inconclusive)
	}
	if o.NonTrivial {
		h := hashBytes(caseJSON)
		if _, dup := r.hashes[h]; !dup {
			r.hashes[h] = struct{}{}
			n := len(r.hashes) - 1
			if sampleKeep(n) {
				if len(r.samples) < maxSamples {
					r.samples = append(r.samples, truncJSON(caseJSON))
				} else {
					r.samples[4+(r.nsampled%(maxSamples-4))] = truncJSON(caseJSON)
				}
				r.nsampled++
			}
		}
	}
	if o.Fail != "" {
		r.failures++
	}
}

// replayFile is the on-disk form of a failing (or sampled) case.
type replayFile struct {
	Property string          `json:"property"`
	Failure  string          `json:"failure,omitempty"`
	Case     json.RawMessage `json:"case"`
	Observed interface{}     `json:"observed,omitempty"`
	Note     string          `json:"note,omitempty"`
}

func outDir() string {
	d := os.Getenv("VERIF_OUT")
	if d == "" {
		d = filepath.Join(os.TempDir(), "verif-out")
	}
	os.MkdirAll(d, 0o755)
	return d
}

func shardSuffix() string {
	if s := os.Getenv("VERIF_SHARD"); s != "" {
		return "." + s
	}
	return ""
}

func (r *recorder) writeFail(caseJSON []byte, o *Outcome) {
	rf := replayFile{Property: r.prop, Failure: o.Fail, Case: caseJSON, Observed: o.Observed}
	b, err := json.MarshalIndent(rf, "", " ")
	if err != nil {
		rf.Observed = fmt.Sprintf("%+v", o.Observed)
		b, _ = json.MarshalIndent(rf, "", " ")
	}
	r.mu.Lock()
	first := r.firstFail == nil
	if first {
		r.firstFail = b
	}
	r.lastFail = b
	r.mu.Unlock()
	d := outDir()
	if first {
		os.WriteFile(filepath.Join(d, r.prop+shardSuffix()+".firstfail.json"), b, 0o644)
	}
	os.WriteFile(filepath.Join(d, r.prop+shardSuffix()+".lastfail.json"), b, 0o644)
}

// writeAhead logs the case that is about to run, so that a process crash (a panic in a
// library goroutine nobody can recover) still leaves a reproduction behind.
func (r *recorder) writeAhead(caseJSON []byte) {
	if os.Getenv("VERIF_WAL") == "" {
		return
	}
	rf := replayFile{Property: r.prop, Case: caseJSON, Note: "write-ahead log: case that was executing when the process died"}
	b, _ := json.Marshal(rf)
	os.WriteFile(filepath.Join(outDir(), r.prop+shardSuffix()+".wal.json"), b, 0o644)
}

type fragment struct {
	Property     string                 `json:"property"`
	Rule         string                 `json:"rule"`
	Evaluations  int                    `json:"evaluations"`
	SubEvals     int                    `json:"sub_evaluations"`
	Distinct     int                    `json:"distinct_nontrivial"`
	Classes      map[string]int         `json:"classes"`
	Samples      []json.RawMessage      `json:"samples"`
	Known        map[string]int         `json:"known_finding_hits"`
	Failures     int                    `json:"failures"`
	Inconclusive []string               `json:"inconclusive"`
	Exhaustive   bool                   `json:"exhaustive"`
	Extra        map[string]interface{} `json:"extra"`
	WallS        float64                `json:"wall_s"`
}

func flushEvidence() {
	recMu.Lock()
	defer recMu.Unlock()
	d := outDir()
	for id, r := range recs {
		r.mu.Lock()
		f := fragment{Property: id, Rule: r.rule, Evaluations: r.evals, SubEvals: r.subEvals, Distinct: len(r.hashes), Classes: r.classes,
			Samples: r.samples, Known: r.known, Failures: r.failures, Inconclusive: r.inconcl, Exhaustive: r.exhaust, Extra: r.extra,
			WallS: time.Since(r.started).Seconds()}
		b, _ := json.MarshalIndent(f, "", " ")
		os.WriteFile(filepath.Join(d, id+shardSuffix()+".frag.json"), b, 0o644)
		hs := make([]uint64, 0, len(r.hashes))
		for h := range r.hashes {
			hs = append(hs, h)
		}
		sort.Slice(hs, func(i, j int) bool { return hs[i] < hs[j] })
		hb := make([]byte, 8*len(hs))
		for i, h := range hs {
			binary.LittleEndian.PutUint64(hb[8*i:], h)
		}
		os.WriteFile(filepath.Join(d, id+shardSuffix()+".hashes"), hb, 0o644)
		r.mu.Unlock()
	}
}

// ---------------------------------------------------------------------------------------
// tiers

func tier() string {
	if os.Getenv("VERIF_TIER") == "thorough" {
		return "thorough"
	}
	return "quick"
}

func thorough() bool { return tier() == "thorough" }

// ---------------------------------------------------------------------------------------
// known findings

type knownFinding struct {
	Property string
	Sig      string
	Text     string
}

var openFindings = map[string]knownFinding{}

func loadKnownFindings() {
	p := os.Getenv("VERIF_KF")
	if p == "" {
		p = "../known_findings.txt"
	}
	b, err := os.ReadFile(p)
	if err != nil {
		return
	}
	for _, line := range strings.Split(string(b), "\n") {
		line = strings.TrimSpace(line)
		if !strings.HasPrefix(line, "open:") {
			continue
		}
		rest := strings.TrimSpace(strings.TrimPrefix(line, "open:"))
		var kf knownFinding
		fields := strings.Fields(rest)
		n := 0
		for _, f := range fields {
			if strings.HasPrefix(f, "property=") {
				kf.Property = strings.TrimPrefix(f, "property=")
				n++
			} else if strings.HasPrefix(f, "sig=") {
				kf.Sig = strings.TrimPrefix(f, "sig=")
				n++
			} else {
				break
			}
		}
		kf.Text = strings.Join(fields[n:], " ")
		if kf.Sig != "" {
			openFindings[kf.Property+"/"+kf.Sig] = kf
		}
	}
}

// knownOpen reports whether the signature is listed as an open finding for the property.
func knownOpen(prop, sig string) bool {
	_, ok := openFindings[prop+"/"+sig]
	return ok
}

// ---------------------------------------------------------------------------------------
// generic runner

type replayFn func(raw json.RawMessage) (*Outcome, error)

var replayers = map[string]replayFn{}

func registerReplay[C any](id string, prop func(C) *Outcome) {
	replayers[id] = func(raw json.RawMessage) (*Outcome, error) {
		var c C
		if err := json.Unmarshal(raw, &c); err != nil {
			return nil, err
		}
		return callProp(prop, c), nil
	}
}

// runCase executes one case of property id, records it and returns the outcome.
func runCase[C any](id string, c C, prop func(C) *Outcome) *Outcome {
	r := rec(id)
	cj, err := json.Marshal(c)
	if err != nil {
		panic(fmt.Sprintf("case not serialisable: %v", err))
	}
	r.writeAhead(cj)
	o := callProp(prop, c)
	r.record(cj, o)
	if o.Fail != "" {
		r.writeFail(cj, o)
	}
	return o
}

// callProp runs the property. A panic that comes out of the library on the calling goroutine (e.g. while the
// harness registers a valid service or makes a call) is a finding like any other - "never panics" is part of
// every property here - and becomes a failed outcome with the case as replay; a panic raised by the harness
// itself is passed on.
func callProp[C any](prop func(C) *Outcome, c C) (o *Outcome) {
	defer func() {
		if p := recover(); p != nil {
			stack := string(debug.Stack())
			// frames between the panic and this function: does the panic originate in the library?
			lines := strings.Split(stack, "\n")
			origin, first := "", ""
			seenPanic := false
			for _, l := range lines {
				l = strings.TrimSpace(l)
				if strings.HasPrefix(l, "panic(") {
					seenPanic = true
					continue
				}
				if !seenPanic || strings.HasPrefix(l, "/") || l == "" {
					continue
				}
				if first == "" && !strings.HasPrefix(l, "runtime.") {
					first = l
				}
				// whose code was running (possibly inside the standard library on its behalf) when it happened?
				if strings.HasPrefix(l, "github.com/fullstorydev/grpchan") {
					origin = first
					break
				}
				if strings.HasPrefix(l, "verifharness.") {
					break
				}
			}
			if origin != "" {
				o = &Outcome{NonTrivial: true}
				o.failf("the library panicked on the caller's goroutine: %v (raised in %s)", p, origin)
				o.Observed = map[string]interface{}{"stack": stack}
				return
			}
			panic(p)
		}
	}()
	return prop(c)
}

// runProp is the standard shape of a check: draw a case, run the property, record.
func runProp[C any](t *testing.T, id, rule string, gen func(*rapid.T) C, prop func(C) *Outcome) {
	registerReplay(id, prop)
	rec(id).rule = rule
	// Shrinking re-runs the property on many candidates; when a failure is a stall, every failing candidate costs the
	// whole stall bound, and rapid's own shrink-time limit is only looked at between passes. So shrinking gets a
	// budget of its own: once it is used up, candidates already known to fail fail again (from memory) and new ones
	// are not tried any more, which lets rapid finish at once with the smallest failing case found so far.
	budget := time.Duration(envInt("VERIF_SHRINK_BUDGET_S", 75)) * time.Second
	var firstFail time.Time
	knownFail := map[string]string{}
	rapid.Check(t, func(rt *rapid.T) {
		c := gen(rt)
		cj, _ := json.Marshal(c)
		if !firstFail.IsZero() && time.Since(firstFail) > budget {
			if msg, ok := knownFail[string(cj)]; ok {
				rt.Fatalf("%s: %s", id, msg)
			}
			return
		}
		o := runCase(id, c, prop)
		if o.Fail != "" {
			if os.Getenv("VERIF_SURVEY") != "" {
				surveyAdd(id, o.Fail)
				return
			}
			if firstFail.IsZero() {
				firstFail = time.Now()
			}
			knownFail[string(cj)] = o.Fail
			rt.Fatalf("%s: %s", id, o.Fail)
		}
	})
	surveyPrint(t, id)
}

var (
	surveyMu sync.Mutex
	survey   = map[string]int{}
)

func surveyAdd(id, fail string) {
	key := fail
	if len(key) > 160 {
		key = key[:160]
	}
	surveyMu.Lock()
	survey[id+": "+key]++
	surveyMu.Unlock()
}

func surveyPrint(t *testing.T, id string) {
	surveyMu.Lock()
	defer surveyMu.Unlock()
	keys := make([]string, 0, len(survey))
	for k := range survey {
		keys = append(keys, k)
	}
	sort.Strings(keys)
	for _, k := range keys {
		t.Logf("SURVEY %6d  %s", survey[k], k)
	}
}

// runEnum runs the property over an explicit, finite list of cases (exhaustive sub-spaces).
func runEnum[C any](t *testing.T, id string, cases []C, prop func(C) *Outcome) {
	registerReplay(id, prop)
	for _, c := range cases {
		o := runCase(id, c, prop)
		if o.Fail != "" {
			t.Errorf("%s: %s", id, o.Fail)
			return
		}
	}
}

func envInt(name string, def int) int {
	if s := os.Getenv(name); s != "" {
		var n int
		if _, err := fmt.Sscanf(s, "%d", &n); err == nil {
			return n
		}
	}
	return def
}
