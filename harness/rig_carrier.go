package harness

// Carriers: the transports under test (in-process channel, httpgrpc.Server, HandleServices on
// a ServeMux) and the reference (grpc.Server + grpc.ClientConn over bufconn), all in memory.

import (
	"context"
	"net"
	"net/http"
	"net/url"
	"path"
	"strings"
	"time"

	"google.golang.org/grpc"
	"google.golang.org/grpc/credentials/insecure"
	"google.golang.org/grpc/test/bufconn"

	"github.com/fullstorydev/grpchan/httpgrpc"
	"github.com/fullstorydev/grpchan/inprocgrpc"
)

const (
	cInproc  = "inproc"
	cHTTP    = "http"    // httpgrpc.NewServer behind net/http server + real http.Transport
	cHTTPMux = "httpmux" // httpgrpc.HandleServices on an http.ServeMux
	cHTTPPer = "httpper" // httpgrpc.HandleMethod / HandleStream, one handler per method, mounted by hand on an http.ServeMux
	cGRPC    = "grpc"    // reference: the standard transport
)

var sutCarriers = []string{cInproc, cHTTP, cHTTPMux, cHTTPPer}

func isHTTP(c string) bool { return c == cHTTP || c == cHTTPMux || c == cHTTPPer }

// perMethodMux mounts every method of the description with the per-method API, the way an application
// that assembles its own routes does.
func perMethodMux(mux *http.ServeMux, base string, desc *grpc.ServiceDesc, svc interface{}, unaryInt grpc.UnaryServerInterceptor, streamInt grpc.StreamServerInterceptor, hopts ...httpgrpc.HandlerOption) {
	for i := range desc.Methods {
		md := desc.Methods[i]
		mux.HandleFunc(path.Join(base, desc.ServiceName+"/"+md.MethodName), httpgrpc.HandleMethod(svc, desc.ServiceName, &md, unaryInt, hopts...))
	}
	for i := range desc.Streams {
		sd := desc.Streams[i]
		mux.HandleFunc(path.Join(base, desc.ServiceName+"/"+sd.StreamName), httpgrpc.HandleStream(svc, desc.ServiceName, &sd, streamInt, hopts...))
	}
}

type carrierOpts struct {
	UnaryInt  grpc.UnaryServerInterceptor
	StreamInt grpc.StreamServerInterceptor
	Cloner    inprocgrpc.Cloner
	BasePath  string // HTTP carriers; "" = "/"
	BufSize   int    // bufconn buffer; 0 = 256 KiB
	HOpts     []httpgrpc.HandlerOption
	// WrapConn lets a case interpose on the client side of every connection (HTTP carriers).
	WrapConn func(net.Conn) net.Conn
	// WrapRT lets a case interpose on the RoundTripper (HTTP carriers).
	WrapRT func(http.RoundTripper) http.RoundTripper
	// WrapHandler lets a case decorate the HTTP handler (middleware in front of httpgrpc).
	WrapHandler func(http.Handler) http.Handler
	// FullDuplex: the server side turns on full duplex for every request (http.ResponseController, Go 1.21+), as a
	// Mux decorator may: replies are no longer held back until the request body has ended
	FullDuplex bool
}

type Carrier struct {
	Name   string
	Conn   grpc.ClientConnInterface
	closer []func()
	// HTTP carriers
	HTTPHandler http.Handler
	Transport   *http.Transport
	BaseURL     *url.URL
}

func (c *Carrier) Close() {
	for i := len(c.closer) - 1; i >= 0; i-- {
		c.closer[i]()
	}
}

func newCarrier(name string, desc *grpc.ServiceDesc, svc interface{}, o carrierOpts) *Carrier {
	c := &Carrier{Name: name}
	bufSize := o.BufSize
	if bufSize == 0 {
		bufSize = 256 * 1024
	}
	switch name {
	case cInproc:
		ch := &inprocgrpc.Channel{}
		if o.UnaryInt != nil {
			ch.WithServerUnaryInterceptor(o.UnaryInt)
		}
		if o.StreamInt != nil {
			ch.WithServerStreamInterceptor(o.StreamInt)
		}
		if o.Cloner != nil {
			ch.WithCloner(o.Cloner)
		}
		ch.RegisterService(desc, svc)
		c.Conn = ch
	case cHTTP, cHTTPMux, cHTTPPer:
		base := o.BasePath
		if base == "" {
			base = "/"
		}
		var h http.Handler
		if name == cHTTP {
			sopts := []httpgrpc.ServerOption{httpgrpc.WithBasePath(base)}
			if o.UnaryInt != nil {
				sopts = append(sopts, httpgrpc.WithServerUnaryInterceptor(o.UnaryInt))
			}
			if o.StreamInt != nil {
				sopts = append(sopts, httpgrpc.WithServerStreamInterceptor(o.StreamInt))
			}
			for _, ho := range o.HOpts {
				sopts = append(sopts, ho)
			}
			s := httpgrpc.NewServer(sopts...)
			s.RegisterService(desc, svc)
			h = s
		} else if name == cHTTPPer {
			mux := http.NewServeMux()
			perMethodMux(mux, base, desc, svc, o.UnaryInt, o.StreamInt, o.HOpts...)
			h = mux
		} else {
			mux := http.NewServeMux()
			httpgrpc.HandleServices(mux.HandleFunc, base, newHandlerMap(desc, svc), o.UnaryInt, o.StreamInt, o.HOpts...)
			h = mux
		}
		if o.FullDuplex {
			inner := h
			h = http.HandlerFunc(func(w http.ResponseWriter, r *http.Request) {
				http.NewResponseController(w).EnableFullDuplex()
				inner.ServeHTTP(w, r)
			})
		}
		if o.WrapHandler != nil {
			h = o.WrapHandler(h)
		}
		c.HTTPHandler = h
		lis := newMemListener()
		srv := &http.Server{Handler: h}
		go srv.Serve(lis)
		tr := &http.Transport{
			DialContext: func(ctx context.Context, _, _ string) (net.Conn, error) {
				conn, err := lis.DialContext(ctx)
				if err == nil && o.WrapConn != nil {
					conn = o.WrapConn(conn)
				}
				return conn, err
			},
			MaxIdleConnsPerHost: 64,
			IdleConnTimeout:     30 * time.Second,
		}
		c.Transport = tr
		var rt http.RoundTripper = tr
		if o.WrapRT != nil {
			rt = o.WrapRT(rt)
		}
		u := &url.URL{Scheme: "http", Host: "verif.test", Path: base}
		if !strings.HasPrefix(base, "/") {
			u.Path = "/" + base
		}
		c.BaseURL = u
		c.Conn = &httpgrpc.Channel{Transport: rt, BaseURL: u}
		c.closer = append(c.closer, func() {
			tr.CloseIdleConnections()
			srv.Close()
			lis.Close()
		})
	case cGRPC:
		lis := bufconn.Listen(bufSize)
		sopts := []grpc.ServerOption{grpc.MaxRecvMsgSize(1 << 30), grpc.MaxSendMsgSize(1 << 30)}
		if o.UnaryInt != nil {
			sopts = append(sopts, grpc.UnaryInterceptor(o.UnaryInt))
		}
		if o.StreamInt != nil {
			sopts = append(sopts, grpc.StreamInterceptor(o.StreamInt))
		}
		gs := grpc.NewServer(sopts...)
		gs.RegisterService(desc, svc)
		go gs.Serve(lis)
		cc, err := grpc.Dial("passthrough:///bufnet",
			grpc.WithContextDialer(func(ctx context.Context, _ string) (net.Conn, error) { return lis.DialContext(ctx) }),
			grpc.WithTransportCredentials(insecure.NewCredentials()),
			grpc.WithDefaultCallOptions(grpc.MaxCallRecvMsgSize(1<<30), grpc.MaxCallSendMsgSize(1<<30)))
		if err != nil {
			panic(err)
		}
		c.Conn = cc
		c.closer = append(c.closer, func() {
			cc.Close()
			gs.Stop()
			lis.Close()
		})
	default:
		panic("unknown carrier " + name)
	}
	return c
}

// httpCarrierFor serves an arbitrary handler over the in-memory listener and returns a
// carrier whose Conn is an httpgrpc.Channel talking to it (base path "/").
func httpCarrierFor(h http.Handler) *Carrier { return httpCarrierForBase(h, "/") }

func httpCarrierForBase(h http.Handler, base string) *Carrier {
	lis := newMemListener()
	srv := &http.Server{Handler: h}
	go srv.Serve(lis)
	tr := &http.Transport{DialContext: func(ctx context.Context, _, _ string) (net.Conn, error) { return lis.DialContext(ctx) }}
	u := &url.URL{Scheme: "http", Host: "verif.test", Path: base}
	c := &Carrier{Name: cHTTP, HTTPHandler: h, Transport: tr, BaseURL: u, Conn: &httpgrpc.Channel{Transport: tr, BaseURL: u}}
	c.closer = append(c.closer, func() { tr.CloseIdleConnections(); srv.Close(); lis.Close() })
	return c
}
