package harness

// C02 — the client sees exactly the handler's final status; success only if it succeeded.

import (
	"context"
	"fmt"
	"google.golang.org/grpc/status"
	"io"
	"net"
	"net/http"
	"runtime"
	"strings"
	"testing"
	"time"
	"unicode/utf8"

	pb "github.com/fullstorydev/grpchan/grpchantesting"
	"github.com/fullstorydev/grpchan/httpgrpc"
	"google.golang.org/grpc"

	"google.golang.org/grpc/metadata"

	"google.golang.org/grpc/codes"
	"pgregory.net/rapid"
)

type c02Case struct {
	Carrier string
	S       Script
	// Cut > 0: fault sequence. The reply is recorded once, then replayed cut short at up to
	// Cut evenly spaced byte offsets (all offsets when the reply is shorter), each with a
	// clean and an abrupt connection end.
	Cut      int `json:",omitempty"`
	CutPhase int `json:",omitempty"`
	// GC: the final RecvMsg is the caller's last use of the stream (as in a generated
	// CloseAndRecv) and the garbage collector runs while that call is blocked.
	GC bool `json:",omitempty"`
	// Undecodable: the handler succeeds, but the caller cannot take its response: it receives into a message
	// of another type (in-process: the copy is refused) - "a response that cannot be decoded is always
	// reported as an error". WrongKind says which RPC kind is used.
	Undecodable bool `json:",omitempty"`
	// Unencodable (HTTP carriers): the handler succeeds with a response that cannot be encoded (a map key that is not
	// valid UTF-8); WrongKind says which kind of call; Silent: the server's error renderer writes nothing
	Unencodable bool   `json:",omitempty"`
	Silent      bool   `json:",omitempty"`
	WrongKind   string `json:",omitempty"`
}

// propC02Unencodable: the handler is content, its response cannot be put on the wire: the caller is told of a failure.
func propC02Unencodable(c c02Case, o *Outcome) *Outcome {
	o.NonTrivial = true
	o.class("unencodable-response/kind=%s/silent-renderer=%v", c.WrongKind, c.Silent)
	bad := func() *pb.Message {
		return &pb.Message{Count: 7, Headers: map[string][]byte{"bin-key\xff": []byte("v")}}
	}
	svc := &Service{
		Unary: func(ctx context.Context, req *pb.Message) (*pb.Message, error) { return bad(), nil },
		Stream: func(kind string, stream grpc.ServerStream) error {
			for stream.RecvMsg(new(pb.Message)) == nil {
				if !clientStreaming(kind) {
					break
				}
			}
			// (a handler that does not look at what its send returned)
			stream.SendMsg(bad())
			return nil
		},
	}
	copts := carrierOpts{}
	if c.Silent {
		copts.HOpts = []httpgrpc.HandlerOption{httpgrpc.ErrorRenderer(func(context.Context, *status.Status, http.ResponseWriter) {})}
	}
	car := newCarrier(c.Carrier, newServiceDesc(), svc, copts)
	defer car.Close()
	var err error
	got := 0
	stall := guard("call", func() {
		ctx, cancel := context.WithCancel(context.Background())
		defer cancel()
		if c.WrongKind == kUnary {
			err = car.Conn.Invoke(ctx, mUnary, &pb.Message{}, new(pb.Message))
			return
		}
		var cs grpc.ClientStream
		cs, err = car.Conn.NewStream(ctx, streamDescOf(c.WrongKind), methodOf(c.WrongKind))
		if err != nil {
			return
		}
		cs.SendMsg(&pb.Message{})
		cs.CloseSend()
		for {
			if err = cs.RecvMsg(new(pb.Message)); err != nil {
				return
			}
			got++
			if !serverStreaming(c.WrongKind) {
				err = nil
				return
			}
		}
	})
	if stall != "" {
		return o.failf("%s/%s: %s", c.Carrier, c.WrongKind, firstLine(stall))
	}
	o.Observed = map[string]interface{}{"err": errStr(err), "messages": got}
	if err == nil || err == io.EOF {
		return o.failf("%s/%s (error renderer writes nothing: %v): the handler's response cannot be encoded (map key that is not valid UTF-8), the caller is told the call succeeded (%d messages, %v)", c.Carrier, c.WrongKind, c.Silent, got, err)
	}
	return o
}

// propC02Undecodable: in-process call whose response cannot be delivered into what the caller supplied.
func propC02Undecodable(c c02Case, o *Outcome) *Outcome {
	o.class("undecodable-response/kind=%s", c.WrongKind)
	o.NonTrivial = true
	svc := &Service{
		Unary: func(ctx context.Context, req *pb.Message) (*pb.Message, error) {
			return &pb.Message{Count: 5, Payload: []byte("resp")}, nil
		},
		Stream: func(kind string, stream grpc.ServerStream) error {
			for stream.RecvMsg(new(pb.Message)) == nil {
				if !clientStreaming(kind) {
					break
				}
			}
			return stream.SendMsg(&pb.Message{Count: 5, Payload: []byte("resp")})
		},
	}
	car := newCarrier(cInproc, newServiceDesc(), svc, carrierOpts{})
	defer car.Close()
	ctx, cancel := context.WithCancel(context.Background())
	defer cancel()
	var err error
	wrong := &httpgrpc.HttpTrailer{Code: 42}
	stall := guard("call", func() {
		defer func() {
			if p := recover(); p != nil {
				err = fmt.Errorf("panic: %v", p)
				o.Fail = fmt.Sprintf("in-process %s call receiving into a message of another type panicked: %v", c.WrongKind, p)
			}
		}()
		if c.WrongKind == kUnary {
			err = car.Conn.Invoke(ctx, mUnary, &pb.Message{}, wrong)
			return
		}
		var cs grpc.ClientStream
		cs, err = car.Conn.NewStream(ctx, streamDescOf(c.WrongKind), methodOf(c.WrongKind))
		if err != nil {
			return
		}
		cs.SendMsg(&pb.Message{})
		cs.CloseSend()
		err = cs.RecvMsg(wrong)
	})
	if stall != "" {
		return o.failf("undecodable response: %s", stall)
	}
	o.Observed = map[string]interface{}{"err": errStr(err)}
	if o.Fail != "" {
		return o
	}
	if err == nil || err == io.EOF {
		return o.failf("in-process %s call: the handler's response (a grpchantesting.Message) cannot be delivered into the caller's httpgrpc.HttpTrailer, yet the receive reported %v (success); caller's message: %v", c.WrongKind, err, wrong)
	}
	return o
}

//go:noinline
func lastUseRecv(cs grpc.ClientStream, m *pb.Message) error { return cs.RecvMsg(m) }

//go:noinline
func c02GCClient(conn grpc.ClientConnInterface, ctx context.Context, kind string, reqs []*pb.Message, out *pb.Message) error {
	cs, err := conn.NewStream(ctx, streamDescOf(kind), methodOf(kind))
	if err != nil {
		return err
	}
	for _, r := range reqs {
		if err := cs.SendMsg(r); err != nil {
			return err
		}
	}
	if err := cs.CloseSend(); err != nil {
		return err
	}
	// last use of cs: nothing below refers to it
	return lastUseRecv(cs, out)
}

// propC02GC: a collection cycle while the caller's last call on a stream is blocked must not
// change the outcome (the handler's status).
func propC02GC(c c02Case, o *Outcome) *Outcome {
	s := &c.S
	o.class("gc/carrier=%s/kind=%s", c.Carrier, s.Kind)
	o.NonTrivial = true
	want := s.Resps[0].Build()
	final := s.Final.Build()
	release := make(chan struct{})
	svc := &Service{Stream: func(kind string, stream grpc.ServerStream) error {
		for {
			if err := stream.RecvMsg(new(pb.Message)); err != nil {
				break
			}
			if !clientStreaming(kind) {
				break
			}
		}
		<-release
		if kind == kClientStream && final == nil {
			if err := stream.SendMsg(want); err != nil {
				return err
			}
		}
		return final
	}}
	car := newCarrier(c.Carrier, newServiceDesc(), svc, carrierOpts{})
	defer car.Close()
	ctx, cancel := context.WithCancel(context.Background())
	defer cancel()
	var reqs []*pb.Message
	for _, r := range s.Reqs {
		reqs = append(reqs, r.Build())
	}
	out := new(pb.Message)
	errCh := make(chan error, 1)
	go func() { errCh <- c02GCClient(car.Conn, ctx, s.Kind, reqs, out) }()
	// let the client reach its blocking receive, then collect while it is parked there
	for i := 0; i < 3; i++ {
		time.Sleep(time.Millisecond)
		runtime.GC()
	}
	time.Sleep(time.Millisecond)
	close(release)
	var err error
	select {
	case err = <-errCh:
	case <-time.After(stallBound):
		return o.failf("%s/%s: client did not return: %s", c.Carrier, s.Kind, goroutineDump())
	}
	so := observeErr(err)
	o.Observed = so
	e := modelScript(s)
	if e.Code == codes.OK {
		ok := err == nil
		if s.Kind == kServerStream {
			ok = err == io.EOF
		}
		if !ok {
			return o.failf("%s/%s: handler succeeded, nobody cancelled, yet the caller's last RecvMsg (with a GC cycle while it was blocked) returned %s", c.Carrier, s.Kind, so.Raw)
		}
		if s.Kind == kClientStream && !sameMsg(out, want) {
			return o.failf("%s/%s: wrong response message", c.Carrier, s.Kind)
		}
		return o
	}
	if so.Code != uint32(e.Code) {
		return o.failf("%s/%s: handler returned code %d, the caller's last RecvMsg (GC while blocked) returned %s", c.Carrier, s.Kind, e.Code, so.Raw)
	}
	return o
}

func scriptSuccess(s *Script, e *Expect, o *Obs) bool {
	switch {
	case s.Kind == kUnary:
		return o.Final.Nil
	case e.SingleResp:
		return len(o.Recvs) > 0 && o.Recvs[0].Err == ""
	default:
		return o.Final.EOF
	}
}

// propC02Cut: a reply that is cut short before its end is never reported as success, and
// what was delivered before the cut is an intact prefix.
func propC02Cut(c c02Case, o *Outcome) *Outcome {
	s := &c.S
	e := modelScript(s)
	o.class("cut/kind=%s", s.Kind)
	total := 0
	full := runScript(s, c.Carrier, carrierOpts{WrapConn: func(nc net.Conn) net.Conn { return &countConn{Conn: nc, n: &total} }})
	if dev := statusDeviation(s, e, full); dev != "" {
		if sig := c02Known(&c, e, full, dev); sig != "" {
			o.Known = append(o.Known, sig)
			return o
		}
		return o.failf("%s/%s (uncut run of a fault case): %s", c.Carrier, s.Kind, dev)
	}
	// last byte that must arrive: unary replies end with the body (Content-Length); chunked
	// stream replies end with "\r\n0\r\n\r\n" after the trailer frame's last byte.
	mustHave := total
	if s.Kind != kUnary {
		mustHave = total - 7
	}
	stride := 1
	if c.Cut < mustHave {
		stride = (mustHave + c.Cut - 1) / c.Cut
	}
	o.NonTrivial = true
	for n := c.CutPhase % stride; n < mustHave; n += stride {
		for _, abrupt := range []bool{false, true} {
			o.Sub++
			obs := runScript(s, c.Carrier, carrierOpts{WrapConn: func(nc net.Conn) net.Conn { return &cutConn{Conn: nc, remaining: n, abrupt: abrupt, afterReply: true} }})
			if obs.HandlerRuns > 1 {
				return o.failf("%s/%s: reply cut after %d bytes (abrupt=%v): one call made the handler run %d times (the request was delivered more than once)", c.Carrier, s.Kind, n, abrupt, obs.HandlerRuns)
			}
			if len(obs.Panics) > 0 {
				o.Observed = obs
				return o.failf("reply cut at byte %d of %d (abrupt=%v): panic %s", n, total, abrupt, obs.Panics[0])
			}
			if obs.Stalled != "" {
				o.Observed = obs
				return o.failf("reply cut at byte %d of %d (abrupt=%v): client stalled: %s", n, total, abrupt, obs.Stalled)
			}
			if scriptSuccess(s, e, obs) {
				o.Observed = obs
				return o.failf("%s/%s: reply cut at byte %d of %d (abrupt=%v) reported as success", c.Carrier, s.Kind, n, total, abrupt)
			}
			got := 0
			for _, r := range obs.Recvs {
				if r.Err != "" {
					continue
				}
				if got >= len(e.Msgs) || string(r.Msg) != string(e.Msgs[got]) {
					o.Observed = obs
					return o.failf("%s/%s: reply cut at byte %d of %d: delivered message %d is not the message sent", c.Carrier, s.Kind, n, total, got)
				}
				got++
			}
		}
	}
	return o
}

// statusDeviation compares the observed final outcome with the model; "" = as expected.
func statusDeviation(s *Script, e *Expect, o *Obs) string {
	if len(o.Panics) > 0 {
		return "panic: " + o.Panics[0]
	}
	if o.Stalled != "" {
		return "stall: " + o.Stalled
	}
	success := false
	switch {
	case s.Kind == kUnary:
		success = o.Final.Nil
	case e.SingleResp:
		// success = the first RecvMsg handed out a message without error
		success = len(o.Recvs) > 0 && o.Recvs[0].Err == ""
	default:
		success = o.Final.EOF
	}
	got := 0
	for _, r := range o.Recvs {
		if r.Err == "" {
			got++
		}
	}
	if e.Cardinality {
		if success {
			return "cardinality: handler did not produce exactly one response with OK status, yet the client reports success"
		}
		return ""
	}
	if e.Code == codes.OK {
		if !success {
			return fmt.Sprintf("handler succeeded but client reports %s", o.Final.Raw)
		}
		if got != len(e.Msgs) {
			return fmt.Sprintf("success reported with %d of %d response messages received", got, len(e.Msgs))
		}
		for i, r := range o.Recvs {
			if r.Err == "" && i < len(e.Msgs) && string(r.Msg) != string(e.Msgs[i]) {
				return fmt.Sprintf("success reported, but response message %d is not the one the handler sent (%d bytes received, %d bytes sent): the complete response was not received", i, len(r.Msg), len(e.Msgs[i]))
			}
		}
		if e.SingleResp && s.Kind != kUnary && !o.Final.EOF {
			return fmt.Sprintf("single-response success followed by %s instead of io.EOF", o.Final.Raw)
		}
		return ""
	}
	if success {
		return fmt.Sprintf("handler failed with code %d but client reports success", e.Code)
	}
	if o.Final.EOF {
		return fmt.Sprintf("handler failed with code %d but client stream ended with io.EOF (success)", e.Code)
	}
	for i, a := range o.After {
		if a != "error" {
			return fmt.Sprintf("handler failed with code %d and the stream reported it, but RecvMsg call %d after that returned %s (success)", e.Code, i+1, a)
		}
	}
	if s.Final.anyFailure() {
		return "" // a failure is all that can be demanded
	}
	if o.Final.Code != uint32(e.Code) {
		return fmt.Sprintf("code: handler returned %d, client sees %d (%s)", e.Code, o.Final.Code, o.Final.Raw)
	}
	if sanitizeMsg(o.Final.Msg) != sanitizeMsg(e.Msg) {
		return fmt.Sprintf("message: handler returned %q, client sees %q", e.Msg, o.Final.Msg)
	}
	if len(o.Final.Details) != len(e.Details) {
		return fmt.Sprintf("details: handler returned %d, client sees %d", len(e.Details), len(o.Final.Details))
	}
	for i := range e.Details {
		if string(e.Details[i]) != string(o.Final.Details[i]) {
			return fmt.Sprintf("detail %d differs", i)
		}
	}
	return ""
}

func propC02(c c02Case) *Outcome {
	o := &Outcome{}
	if c.Cut > 0 {
		return propC02Cut(c, o)
	}
	if c.GC {
		return propC02GC(c, o)
	}
	if c.Unencodable {
		return propC02Unencodable(c, o)
	}
	if c.Undecodable {
		return propC02Undecodable(c, o)
	}
	s := &c.S
	e := modelScript(s)
	o.class("carrier=%s", c.Carrier)
	o.class("kind=%s", s.Kind)
	o.class("final=%s", s.Final.Kind)
	nsend := 0
	for _, op := range s.HOps {
		if op.Op == "send" {
			nsend++
		}
	}
	plainMsg := true
	for _, b := range s.Final.Msg {
		if !(b == ' ' || b >= 'a' && b <= 'z' || b >= 'A' && b <= 'Z') {
			plainMsg = false
		}
	}
	o.NonTrivial = !s.Final.isNil() && (!plainMsg || len(s.Final.Details) > 0 || nsend > 0)
	if o.NonTrivial {
		o.class("nontrivial/err-after-%d-responses", min(nsend, 3))
	}
	obs := runScript(s, c.Carrier, carrierOpts{})
	o.Observed = obs
	dev := statusDeviation(s, e, obs)
	if dev == "" {
		// now and then ask the standard transport whether the model is right about it, too
		if sampleForReference(s) {
			o.class("model-also-validated-on-grpc-go")
			if rdev := statusDeviation(s, e, runScript(s, cGRPC, carrierOpts{})); rdev != "" {
				o.Inconclusive = "model disagrees with reference transport although the SUT agrees with the model: " + rdev
			}
		}
		return o
	}
	if sig := c02Known(&c, e, obs, dev); sig != "" {
		o.Known = append(o.Known, sig)
		return o
	}
	// is the model right? ask the standard transport.
	if !referenceUsable(s) {
		return o.failf("%s/%s: %s", c.Carrier, s.Kind, dev)
	}
	ref := runScript(s, cGRPC, carrierOpts{})
	if rdev := statusDeviation(s, e, ref); rdev != "" {
		o.Inconclusive = fmt.Sprintf("model disagrees with reference transport (%s); SUT deviation was: %s", rdev, dev)
		o.Observed = map[string]interface{}{"sut": obs, "ref": ref}
		return o
	}
	return o.failf("%s/%s: %s", c.Carrier, s.Kind, dev)
}

// c02Known maps a deviation to the signature of a listed known finding ("" if none applies).
func c02Known(c *c02Case, e *Expect, o *Obs, dev string) string {
	if sig := kfHTTPTrailerNotUTF8(c.Carrier, &c.S, e, o); sig != "" && knownOpen("C02", sig) {
		return sig
	}
	if sig := kfHTTPUnaryMsgWhitespace(c.Carrier, &c.S, e, o); sig != "" && knownOpen("C02", sig) {
		return sig
	}
	return ""
}

func mdHasInvalidUTF8(md metadata.MD) bool {
	for _, vs := range md {
		for _, v := range vs {
			if !utf8.ValidString(v) {
				return true
			}
		}
	}
	return false
}

// kfHTTPTrailerNotUTF8: over HTTP streams the trailer frame carries trailer metadata values as
// proto3 strings; a value that is not valid UTF-8 (any "-bin" value may be) makes the trailer
// unencodable, the server writes none, and the client reports io.ErrUnexpectedEOF instead of the
// handler's status. Matches only that exact outcome (an error, never a success).
func kfHTTPTrailerNotUTF8(carrier string, s *Script, e *Expect, o *Obs) string {
	if !isHTTP(carrier) || s.Kind == kUnary || !mdHasInvalidUTF8(e.Trailers) {
		return ""
	}
	if o.Final.Nil || o.Final.EOF || o.Stalled != "" || len(o.Panics) > 0 {
		return ""
	}
	if !strings.Contains(o.Final.Raw, "unexpected EOF") {
		return ""
	}
	for _, r := range o.Recvs[:len(o.Recvs)-1] {
		if r.Err != "" {
			return ""
		}
	}
	return "http-stream-trailer-value-not-utf8"
}

// kfHTTPUnaryMsgWhitespace: the unary HTTP reply carries the status message in the
// X-GRPC-Status header; HTTP/1.1 header syntax turns CR/LF into spaces and drops trailing
// whitespace. Matches only when code and details are right and the message differs by exactly that.
func kfHTTPUnaryMsgWhitespace(carrier string, s *Script, e *Expect, o *Obs) string {
	if !isHTTP(carrier) || s.Kind != kUnary || e.Code == codes.OK {
		return ""
	}
	if !o.Final.IsStatus || o.Final.Code != uint32(e.Code) || len(o.Final.Details) != len(e.Details) {
		return ""
	}
	want := strings.NewReplacer("\r", " ", "\n", " ").Replace(e.Msg)
	want = strings.TrimRight(want, " \t")
	if want == e.Msg {
		return "" // nothing for HTTP to alter
	}
	if sanitizeMsg(o.Final.Msg) != sanitizeMsg(want) {
		return ""
	}
	return "http-unary-status-message-crlf-or-trailing-space"
}

func genC02(t *rapid.T) c02Case {
	if rapid.IntRange(0, 39).Draw(t, "gc") == 0 {
		c := c02Case{GC: true, Carrier: rapid.SampledFrom(sutCarriers).Draw(t, "carrier"),
			S: genScript(t, scriptGenOpts{MaxMsg: 100, MDKeys: 0, FewOps: true, NoEarly: true, PlainStatus: true, OnlyKinds: []string{kClientStream, kServerStream}})}
		c.S.HOps = nil
		return c
	}
	if rapid.IntRange(0, 39).Draw(t, "unencodable") == 0 {
		return c02Case{Carrier: rapid.SampledFrom([]string{cHTTP, cHTTPMux, cHTTPPer}).Draw(t, "uecarrier"), Unencodable: true, WrongKind: rapid.SampledFrom(allKinds).Draw(t, "uekind"), Silent: rapid.Bool().Draw(t, "uesilent")}
	}
	if rapid.IntRange(0, 39).Draw(t, "undecodable") == 0 {
		return c02Case{Carrier: cInproc, Undecodable: true, WrongKind: rapid.SampledFrom(allKinds).Draw(t, "wrongkind")}
	}
	if rapid.IntRange(0, 9).Draw(t, "fault") == 0 {
		c := c02Case{Carrier: rapid.SampledFrom([]string{cHTTP, cHTTPMux, cHTTPPer}).Draw(t, "carrier"),
			S: genScript(t, scriptGenOpts{MaxMsg: 300, MDKeys: 1, FewOps: true, NoEarly: true, PlainStatus: true})}
		c.S.Final = ErrSpec{Kind: "nil"}
		c.S.Chunked = false    // the recorded reply's last byte is the body's last byte
		c.S.PreSendHdr = false // the cut counts the bytes of the one scripted call
		c.S.SlowFinish = false // (many runs per case)
		if c.S.Kind == kClientStream {
			c.S.HOps = []HOp{{Op: "send", Msg: 0}}
		}
		c.Cut = 48
		if thorough() {
			c.Cut = 100000
		}
		c.CutPhase = rapid.IntRange(0, 1000).Draw(t, "phase")
		return c
	}
	return c02Case{
		Carrier: rapid.SampledFrom(sutCarriers).Draw(t, "carrier"),
		S:       genScript(t, scriptGenOpts{MaxMsg: 5000, MDKeys: 1, FewOps: false}),
	}
}

func init() { registerReplay("C02", propC02) }

const c02Rule = "rapid-generated cooperative scripts (kind x request list x handler op order x final outcome: nil/status incl. out-of-range codes, odd messages, details/plain error/context errors/io.EOF) on inproc, httpgrpc.Server and HandleServices; " +
	"oracle = model of the handler's returned status (cross-checked on grpc-go over bufconn when the SUT deviates) in both directions (equality; success implies handler success and complete response); " +
	"plus GC cases (a collection cycle while the caller's last RecvMsg on the stream is blocked must not change the outcome) and fault sequences: successful HTTP replies cut short at evenly spaced byte offsets (every offset in the thorough tier) with clean and abrupt connection ends - never success, delivered messages an intact prefix; " +
	"also generated since the seeded rounds: wrapped context and status errors (%w), errors carrying an OK status, handler metadata named like the protocol's own status headers (Spoof: the outcome must not change), payload sizes around powers of two, caller deadlines, replies without Content-Length (chunked by a middleware), failing unary handlers that return a response next to their error, responses the caller cannot take (in-process receive into another message type: never success), the per-method HTTP server form; on success the received messages are compared byte for byte with what the handler sent; " +
	"non-trivial = fault case, or non-nil outcome with a message outside [A-Za-z ]*, or details, or an error after >=1 response; distinct by case hash"

func TestC02(t *testing.T) {
	runProp(t, "C02", c02Rule, genC02, propC02)
}
