package harness

// C03 — request metadata, response headers and trailers arrive complete and unaltered.

import (
	"context"
	"fmt"
	"strings"
	"sync"
	"testing"
	"time"

	"google.golang.org/grpc"
	"google.golang.org/grpc/metadata"
	"pgregory.net/rapid"

	pb "github.com/fullstorydev/grpchan/grpchantesting"
)

type c03Case struct {
	Carrier string
	S       Script
	// Calls > 1: the script is run that many times in a row on the same channel and server, the handler
	// reusing its metadata objects (S.StaticMD); every call must look like the first
	Calls int `json:",omitempty"`
	// Gate != "": separate mode - "headers become observable no later than the first response message". The handler
	// (server-streaming or bidi) does the header operations of GateOps, sends one message and then waits; the
	// client receives that message and asks for Header() while the handler is still waiting: the answer (what the
	// handler set, possibly nothing) has to come without the handler doing anything more.
	Gate    string   `json:",omitempty"` // kind: server-stream | bidi
	GateOps []string `json:",omitempty"` // sethdr | sendhdr
	GateMD  MDSpec   `json:",omitempty"`
}

func c03Gate(c c03Case) *Outcome {
	o := &Outcome{NonTrivial: true}
	o.class("carrier=%s", c.Carrier)
	o.class("header-after-first-message/kind=%s/header-ops=%d", c.Gate, len(c.GateOps))
	release := make(chan struct{})
	var relOnce sync.Once
	free := func() { relOnce.Do(func() { close(release) }) }
	defer free()
	svc := &Service{Stream: func(kind string, stream grpc.ServerStream) error {
		stream.RecvMsg(new(pb.Message))
		for _, op := range c.GateOps {
			if op == "sendhdr" {
				stream.SendHeader(c.GateMD.MD())
			} else {
				stream.SetHeader(c.GateMD.MD())
			}
		}
		if err := stream.SendMsg(&pb.Message{Count: 1}); err != nil {
			return err
		}
		select {
		case <-release:
		case <-stream.Context().Done():
		case <-time.After(stallBound):
		}
		return nil
	}}
	car := newCarrier(c.Carrier, newServiceDesc(), svc, carrierOpts{})
	defer car.Close()
	ctx, cancel := context.WithCancel(context.Background())
	defer cancel()
	var hdr metadata.MD
	var herr, rerr error
	answered := false
	stall := guard("call", func() {
		cs, err := car.Conn.NewStream(ctx, streamDescOf(c.Gate), methodOf(c.Gate))
		if err != nil {
			rerr = err
			return
		}
		cs.SendMsg(&pb.Message{})
		if c.Gate == kServerStream || isHTTP(c.Carrier) {
			cs.CloseSend() // (half-duplex over HTTP)
		}
		if rerr = cs.RecvMsg(new(pb.Message)); rerr != nil {
			return
		}
		done := make(chan struct{})
		go func() {
			defer close(done)
			hdr, herr = cs.Header()
		}()
		select {
		case <-done:
			answered = true
		case <-time.After(3 * time.Second):
		}
		free()
		<-done
		cs.CloseSend()
		for cs.RecvMsg(new(pb.Message)) == nil {
		}
	})
	if stall != "" {
		return o.failf("%s/%s: %s", c.Carrier, c.Gate, stall)
	}
	o.Observed = map[string]interface{}{"recv": errStr(rerr), "header": hdr, "header_err": errStr(herr), "answered_while_handler_waits": answered}
	if rerr != nil {
		return o.failf("%s/%s: the first response message did not arrive: %v", c.Carrier, c.Gate, rerr)
	}
	if !answered {
		return o.failf("%s/%s: the first response message has been received (handler header operations before it: %v), yet Header() was still blocked 3s later, until the handler moved on", c.Carrier, c.Gate, c.GateOps)
	}
	if herr != nil {
		return o.failf("%s/%s: Header() after the first response message: %v", c.Carrier, c.Gate, herr)
	}
	want := metadata.MD{}
	for range c.GateOps {
		want = metadata.Join(want, c.GateMD.MD())
	}
	if ok, why := mdContains(hdr, want); !ok {
		return o.failf("%s/%s: Header() after the first response message (handler did %v with %v): %s", c.Carrier, c.Gate, c.GateOps, c.GateMD, why)
	}
	return o
}

// mdDeviation compares everything metadata-related with the model; "" = as expected.
func mdDeviation(s *Script, e *Expect, o *Obs) string { return mdDeviationOpt(s, e, o, false) }

func mdDeviationOpt(s *Script, e *Expect, o *Obs, skipTrailers bool) string {
	if len(o.Panics) > 0 {
		return "panic: " + o.Panics[0]
	}
	if o.Stalled != "" {
		return "stall: " + o.Stalled
	}
	if o.HandlerRuns != 1 {
		return fmt.Sprintf("handler ran %d times", o.HandlerRuns)
	}
	if ok, why := mdContains(o.InMD, e.ReqMD); !ok {
		return "request metadata at handler: " + why
	}
	for i, fail := range e.HOpFail {
		if i >= len(o.HOpErrs) {
			return fmt.Sprintf("handler op %d never completed", i)
		}
		op := s.HOps[i].Op
		if op == "send" || e.HOpEither[i] {
			continue
		}
		if fail && o.HOpErrs[i] == "" {
			return fmt.Sprintf("handler op %d (%s) after headers were sent returned nil", i, op)
		}
		if !fail && o.HOpErrs[i] != "" {
			return fmt.Sprintf("handler op %d (%s) failed: %s", i, op, o.HOpErrs[i])
		}
	}
	if o.HeaderCalled {
		if o.HeaderErr != "" {
			return fmt.Sprintf("Header() (after %d messages) failed: %s", o.HeaderAfter, o.HeaderErr)
		}
		if ok, why := mdContains(o.HeaderMD, e.Headers); !ok {
			return fmt.Sprintf("Header() (after %d messages): %s", o.HeaderAfter, why)
		}
	}
	for i, h := range o.HdrOpts {
		if ok, why := mdContains(h, e.Headers); !ok {
			return fmt.Sprintf("grpc.Header option %d of %d: %s", i, len(o.HdrOpts), why)
		}
	}
	if skipTrailers {
		return ""
	}
	if s.Kind != kUnary {
		if ok, why := mdContains(o.TrailerMD, e.Trailers); !ok {
			return "Trailer(): " + why
		}
	}
	for i, h := range o.TlrOpts {
		if ok, why := mdContains(h, e.Trailers); !ok {
			return fmt.Sprintf("grpc.Trailer option %d of %d: %s", i, len(o.TlrOpts), why)
		}
	}
	return ""
}

func c03NonTrivial(s *Script) bool {
	specs := []MDSpec{append(append(MDSpec{}, s.ReqMD...), s.ReqMDMore...)}
	var hdr, tlr MDSpec
	for _, op := range s.HOps {
		switch op.Op {
		case "sethdr", "sendhdr":
			hdr = append(hdr, op.MD...)
		case "settlr":
			tlr = append(tlr, op.MD...)
		}
	}
	specs = append(specs, hdr, tlr)
	return mdNonTrivial(specs...) || s.NHdrOpts >= 2 || s.NTlrOpts >= 2
}

func propC03(c c03Case) *Outcome {
	if c.Gate != "" {
		return c03Gate(c)
	}
	o := &Outcome{}
	s := &c.S
	e := modelScript(s)
	o.class("carrier=%s", c.Carrier)
	o.class("kind=%s", s.Kind)
	o.class("headerAt=%d", s.HeaderAt)
	o.class("final-ok=%v", s.Final.isNil())
	late := false
	for _, f := range e.HOpFail {
		late = late || f
	}
	o.class("late-header-op=%v", late)
	o.NonTrivial = c03NonTrivial(s)
	var later []*Obs
	var obs *Obs
	if c.Calls > 1 {
		o.class("repeated-calls-with-static-metadata")
		all := runScriptRepeat(s, c.Carrier, carrierOpts{}, c.Calls)
		obs, later = all[0], all[1:]
	} else {
		obs = runScript(s, c.Carrier, carrierOpts{})
	}
	o.Observed = obs
	dev := mdDeviation(s, e, obs)
	if dev == "" {
		for i, lo := range later {
			ldev := mdDeviation(s, e, lo)
			if ldev == "" {
				continue
			}
			o.Observed = map[string]interface{}{"first": obs, "later": lo}
			if sig := kfHTTPTrailerNotUTF8(c.Carrier, s, e, lo); sig != "" && knownOpen("C03", sig) {
				break
			}
			refs := runScriptRepeat(s, cGRPC, carrierOpts{}, c.Calls)
			if len(refs) <= i+1 || mdDeviation(s, e, refs[i+1]) != "" {
				o.Inconclusive = "model disagrees with reference transport on a repeated call; SUT deviation was: " + ldev
				return o
			}
			return o.failf("%s/%s: call %d of %d on the same channel (handler reuses its metadata objects): %s", c.Carrier, s.Kind, i+2, c.Calls, ldev)
		}
		if sampleForReference(s) {
			o.class("model-also-validated-on-grpc-go")
			if rdev := mdDeviation(s, e, runScript(s, cGRPC, carrierOpts{})); rdev != "" {
				o.Inconclusive = "model disagrees with reference transport although the SUT agrees with the model: " + rdev
			}
		}
		return o
	}
	if sig := kfHTTPTrailerNotUTF8(c.Carrier, s, e, obs); sig != "" && knownOpen("C03", sig) {
		o.Known = append(o.Known, sig)
		// everything but the trailers must still be right
		if dev2 := mdDeviationOpt(s, e, obs, true); dev2 != "" {
			return o.failf("%s/%s: %s", c.Carrier, s.Kind, dev2)
		}
		return o
	}
	ref := runScript(s, cGRPC, carrierOpts{})
	if rdev := mdDeviation(s, e, ref); rdev != "" {
		o.Inconclusive = fmt.Sprintf("model disagrees with reference transport (%s); SUT deviation was: %s", rdev, dev)
		o.Observed = map[string]interface{}{"sut": obs, "ref": ref}
		return o
	}
	return o.failf("%s/%s: %s", c.Carrier, s.Kind, dev)
}

func genC03(t *rapid.T) c03Case {
	if rapid.IntRange(0, 24).Draw(t, "gate") == 0 {
		c := c03Case{Carrier: rapid.SampledFrom(sutCarriers).Draw(t, "gcarrier"), Gate: rapid.SampledFrom([]string{kServerStream, kBidi}).Draw(t, "gkind")}
		c.GateOps = rapid.SampledFrom([][]string{nil, nil, {"sethdr"}, {"sendhdr"}, {"sethdr", "sethdr"}, {"sethdr", "sendhdr"}}).Draw(t, "gops")
		if len(c.GateOps) > 0 {
			c.GateMD = genMD(t, "gmd", 2)
		}
		return c
	}
	c := c03Case{
		Carrier: rapid.SampledFrom(sutCarriers).Draw(t, "carrier"),
		S:       genScript(t, scriptGenOpts{MaxMsg: 200, MDKeys: 3, PlainStatus: true}),
	}
	if rapid.IntRange(0, 5).Draw(t, "repeat") == 0 {
		c.Calls = rapid.IntRange(2, 3).Draw(t, "calls")
		c.S.StaticMD = true
	}
	return c
}

func init() { registerReplay("C03", propC03) }

var _ = strings.Contains

const c03Rule = "rapid-generated cooperative scripts: request metadata (NewOutgoingContext + AppendToOutgoingContext), handler orders over SetHeader/SendHeader/SendMsg/SetTrailer/return ok|err, client Header() before/between/after receives, 0..3 grpc.Header and grpc.Trailer options, on inproc, httpgrpc.Server, HandleServices; " +
	"oracle = per-key ordered merge model (cross-checked on grpc-go when the SUT deviates): handler sees all request pairs, Header()/Trailer()/every option target contain all merged pairs, late SetHeader/SendHeader fail; " +
	"also generated since the seeded rounds: 2..3 calls in a row on one channel with the handler reusing its metadata objects (every call must look like the first), protocol-named handler metadata, caller deadlines, chunked replies, the per-method HTTP server form; " +
	"non-trivial = a -bin value with a non-printable byte, or a key with >=2 values (incl. merged from several calls), or >=2 call options of one kind; distinct by case hash"

func TestC03(t *testing.T) {
	runProp(t, "C03", c03Rule, genC03, propC03)
}

// TestC03Race exercises the clause "a call that reports success has delivered all of them"
// under cancellation races: the hooked in-process unary placements (shared with C04) are run
// and every call that returned nil must have delivered the headers and trailers.
func TestC03Race(t *testing.T) {
	gen := func(t *rapid.T) c04Case {
		c := c04Case{Carrier: cInproc, Kind: kUnary, Mode: rapid.SampledFrom([]string{"cancel", "deadline"}).Draw(t, "mode"),
			Attitude: rapid.SampledFrom([]string{"ignore", "return-ctx-err"}).Draw(t, "attitude"), NReq: 1, NResp: 1,
			Final: rapid.SampledFrom([]uint32{0, 0, 0, 9}).Draw(t, "final")}
		ps := c04Points(cInproc, kUnary, 1, 1, c.Attitude)
		c.Point = rapid.SampledFrom(ps[3:]).Draw(t, "point") // the schedule-point placements
		c.Reps = rapid.IntRange(4, 12).Draw(t, "reps")
		return c
	}
	prop := func(c c04Case) *Outcome {
		o := propC04(c)
		o.Classes = append([]string{"race-clause/" + c.Point}, o.Classes...)
		return o
	}
	checks := envInt("VERIF_C03_RACE_CHECKS", 150)
	rec("C03").rule = c03Rule + "; plus the cancellation-race clause: in-process unary calls with the instant at the verif schedule points, repeated 4..12 times, success => headers and trailers delivered"
	for i := 0; i < checks; i++ {
		var c c04Case
		// drawn through rapid so that the case is a pure function of the seed
		c = rapid.Custom(gen).Example(i + envInt("VERIF_SEED_EFFECTIVE", 1)%1000000)
		o := runCase("C03", struct {
			Race c04Case
		}{c}, func(x struct{ Race c04Case }) *Outcome { return prop(x.Race) })
		if o.Fail != "" {
			t.Fatalf("C03: %s", o.Fail)
		}
	}
}
