package harness

// C07 — HTTP framing decodes safely: bounded memory, no panic, truncation is an error.

import (
	"bytes"
	"context"
	"fmt"
	"io"
	"math"
	"net/http"
	"net/http/httptest"
	"net/url"
	"runtime"
	"runtime/debug"
	"strings"
	"sync"
	"testing"

	"google.golang.org/grpc"
	"google.golang.org/grpc/codes"
	"google.golang.org/grpc/metadata"
	"google.golang.org/grpc/status"
	"google.golang.org/protobuf/encoding/protowire"
	"google.golang.org/protobuf/proto"
	"pgregory.net/rapid"

	pb "github.com/fullstorydev/grpchan/grpchantesting"
	"github.com/fullstorydev/grpchan/httpgrpc"
)

type c07Case struct {
	Side    string // client-ss (server-streaming reply) | client-cs (single-response reply) | server (request body of a bidi method)
	Body    []byte
	Abrupt  bool   // the body ends with io.ErrUnexpectedEOF instead of a clean io.EOF
	MaxRecv bool   `json:",omitempty"` // client side: the caller passes grpc.MaxCallRecvMsgSize(MaxInt32)
	Chop    int    `json:",omitempty"` // the body is delivered at most Chop bytes per Read (0 = no limit)
	Origin  string `json:",omitempty"` // how the body was produced (for the histogram)
	// side server-early-header: NFrames frames with payloads of FrameSize bytes, through a real server of form Carrier
	// RTErr (client sides): no reply at all - the round trip itself fails with this error ("eof": a bare io.EOF, what
	// net/http reports when the peer closes the connection without answering; "unexpected-eof"; "reset")
	RTErr string `json:",omitempty"`
	// Announced (side server-unary): the Content-Length the request announces; Body is what actually arrives
	Announced int64  `json:",omitempty"`
	NFrames   int    `json:",omitempty"`
	FrameSize int    `json:",omitempty"`
	Carrier   string `json:",omitempty"`
	// side roundtrip: the library's own encoders and decoders, both directions: the client sends messages with
	// payloads of Sizes bytes over a bidi stream through a real server of form Carrier, the handler takes them all
	// and sends each one back (FinalCode: the status it then returns); what each side decoded is compared byte for
	// byte with what the other encoded
	Sizes     []int `json:",omitempty"`
	FinalCode int   `json:",omitempty"`
	FinalLen  int   `json:",omitempty"` // length of the status message
}

// endReader yields b and then err (io.EOF or io.ErrUnexpectedEOF).
type endReader struct {
	r    *bytes.Reader
	err  error
	chop int
}

func (e *endReader) Read(p []byte) (int, error) {
	if e.chop > 0 && len(p) > e.chop {
		p = p[:e.chop]
	}
	n, err := e.r.Read(p)
	if err == io.EOF {
		return n, e.err
	}
	return n, err
}
func (e *endReader) Close() error { return nil }

func bodyReader(b []byte, abrupt bool, chop ...int) io.ReadCloser {
	er := &endReader{r: bytes.NewReader(b), err: io.EOF}
	if len(chop) > 0 {
		er.chop = chop[0]
	}
	if abrupt {
		er.err = io.ErrUnexpectedEOF
	}
	return er
}

type c07Obs struct {
	Msgs    [][]byte
	Final   StatusObs
	Panic   string
	Alloc   uint64
	Stalled string
}

func validMsg(b []byte) bool { return proto.Unmarshal(b, new(pb.Message)) == nil }

var c07Serial sync.Mutex // TotalAlloc is process-wide: one case at a time

func c07Client(c *c07Case) *c07Obs {
	obs := &c07Obs{}
	ch := &httpgrpc.Channel{BaseURL: baseURL, Transport: rtFunc(func(r *http.Request) (*http.Response, error) {
		go io.Copy(io.Discard, r.Body)
		switch c.RTErr {
		case "eof":
			return nil, io.EOF
		case "unexpected-eof":
			return nil, io.ErrUnexpectedEOF
		case "reset":
			return nil, errConnReset
		}
		return &http.Response{StatusCode: 200, Status: "200 OK", Proto: "HTTP/1.1", ProtoMajor: 1, ProtoMinor: 1,
			Header: http.Header{"Content-Type": {httpgrpc.StreamRpcContentType_V1}}, Body: bodyReader(c.Body, c.Abrupt, c.Chop), Request: r}, nil
	})}
	kind := kServerStream
	if c.Side == "client-cs" {
		kind = kClientStream
	}
	ctx, cancel := context.WithCancel(context.Background())
	defer cancel()
	var ms1, ms2 runtime.MemStats
	runtime.ReadMemStats(&ms1)
	obs.Stalled = guard("client decode", func() {
		defer func() {
			if r := recover(); r != nil {
				obs.Panic = fmt.Sprintf("%v\n%s", r, debug.Stack())
			}
		}()
		var copts []grpc.CallOption
		if c.MaxRecv {
			copts = append(copts, grpc.MaxCallRecvMsgSize(math.MaxInt32), grpc.MaxCallSendMsgSize(math.MaxInt32))
		}
		cs, err := ch.NewStream(ctx, streamDescOf(kind), methodOf(kind), copts...)
		if err != nil {
			obs.Final = observeErr(err)
			return
		}
		cs.SendMsg(&pb.Message{})
		cs.CloseSend()
		for i := 0; i < 100000; i++ {
			m := new(pb.Message)
			err := cs.RecvMsg(m)
			if err != nil {
				obs.Final = observeErr(err)
				return
			}
			obs.Msgs = append(obs.Msgs, detBytes(m))
		}
	})
	runtime.ReadMemStats(&ms2)
	obs.Alloc = ms2.TotalAlloc - ms1.TotalAlloc
	return obs
}

func c07Server(c *c07Case) *c07Obs {
	obs := &c07Obs{}
	var mu sync.Mutex
	svc := &Service{Stream: func(kind string, stream grpc.ServerStream) error {
		for i := 0; i < 100000; i++ {
			m := new(pb.Message)
			err := stream.RecvMsg(m)
			mu.Lock()
			if err != nil {
				obs.Final = observeErr(err)
				mu.Unlock()
				return nil
			}
			obs.Msgs = append(obs.Msgs, detBytes(m))
			mu.Unlock()
		}
		return nil
	}}
	srv := httpgrpc.NewServer()
	srv.RegisterService(newServiceDesc(), svc)
	method := mBidi
	if c.Side == "server-ss" {
		// a method that takes exactly one request message: the decoder also has to see that the body ends there
		method = mServerStream
	}
	req := httptest.NewRequest("POST", "http://verif.test"+method, bodyReader(c.Body, c.Abrupt, c.Chop))
	req.Header.Set("Content-Type", httpgrpc.StreamRpcContentType_V1)
	req.ContentLength = -1
	w := httptest.NewRecorder()
	var ms1, ms2 runtime.MemStats
	runtime.ReadMemStats(&ms1)
	obs.Stalled = guard("server decode", func() {
		defer func() {
			if r := recover(); r != nil {
				obs.Panic = fmt.Sprintf("%v\n%s", r, debug.Stack())
			}
		}()
		srv.ServeHTTP(w, req)
	})
	runtime.ReadMemStats(&ms2)
	obs.Alloc = ms2.TotalAlloc - ms1.TotalAlloc
	return obs
}

const c07AllocSlack = 6 << 20

// propC07Unary: the reply body of a unary call. It carries no frames: the whole body is the message, its length
// is announced by the HTTP layer, and a body that ends early comes with io.ErrUnexpectedEOF from net/http.
func propC07Unary(c c07Case) *Outcome {
	o := &Outcome{}
	o.class("side=%s", c.Side)
	if c.Origin != "" {
		o.class("origin=%s", c.Origin)
	}
	if c.Chop > 0 {
		o.class("chopped-reads")
	}
	o.NonTrivial = c.Abrupt || !validMsg(c.Body)
	ch := &httpgrpc.Channel{BaseURL: baseURL, Transport: rtFunc(func(r *http.Request) (*http.Response, error) {
		go io.Copy(io.Discard, r.Body)
		return &http.Response{StatusCode: 200, Status: "200 OK", Proto: "HTTP/1.1", ProtoMajor: 1, ProtoMinor: 1,
			Header: http.Header{"Content-Type": {httpgrpc.UnaryRpcContentType_V1}}, Body: bodyReader(c.Body, c.Abrupt, c.Chop), Request: r}, nil
	})}
	var err error
	out := new(pb.Message)
	panicked := ""
	stall := guard("unary client decode", func() {
		defer func() {
			if r := recover(); r != nil {
				panicked = fmt.Sprintf("%v\n%s", r, debug.Stack())
			}
		}()
		err = ch.Invoke(context.Background(), mUnary, &pb.Message{}, out)
	})
	o.Observed = map[string]interface{}{"err": errStr(err), "body_len": len(c.Body), "abrupt": c.Abrupt}
	if panicked != "" {
		return o.failf("client-unary: panic: %s", panicked)
	}
	if stall != "" {
		return o.failf("client-unary: stall: %s", stall)
	}
	if c.Abrupt {
		if err == nil {
			return o.failf("client-unary: the reply body ended early after %d bytes (io.ErrUnexpectedEOF from the transport), yet the call is reported as success with response %v", len(c.Body), out)
		}
		return o
	}
	want := new(pb.Message)
	if uerr := proto.Unmarshal(c.Body, want); uerr != nil {
		if err == nil {
			return o.failf("client-unary: reply body of %d bytes is not a valid message, yet the call is reported as success", len(c.Body))
		}
		return o
	}
	if err != nil {
		return o.failf("client-unary: complete well-formed reply of %d bytes rejected: %v", len(c.Body), err)
	}
	if string(detBytes(out)) != string(detBytes(want)) {
		return o.failf("client-unary: response handed out differs from the reply body")
	}
	return o
}

// propC07EarlyHeader: a real net/http server, a request stream well beyond what net/http is prepared to skip of an
// unread request (256 KiB), and a handler that sends its response headers before it starts receiving: the decoder
// still yields the frames that were encoded, from the first one on, or reports an error.
func propC07EarlyHeader(c c07Case) *Outcome {
	o := &Outcome{NonTrivial: true}
	o.class("side=%s", c.Side)
	var msgs []proto.Message
	var want [][]byte
	for i := 0; i < c.NFrames; i++ {
		m := &pb.Message{Payload: []byte(fmt.Sprintf("%0*d", c.FrameSize, i))}
		msgs = append(msgs, m)
		want = append(want, detBytes(m))
	}
	body := encodeStream(msgs, nil)
	var mu sync.Mutex
	var got [][]byte
	var final error
	svc := &Service{Stream: func(kind string, stream grpc.ServerStream) error {
		stream.SendHeader(metadata.Pairs("zz-early", "1"))
		for {
			m := new(pb.Message)
			err := stream.RecvMsg(m)
			mu.Lock()
			if err != nil {
				final = err
				mu.Unlock()
				return nil
			}
			got = append(got, detBytes(m))
			mu.Unlock()
		}
	}}
	srv := httptest.NewServer(newHTTPHandlerBase(c.Carrier, "", newServiceDesc(), svc))
	defer srv.Close()
	var rerr error
	status := 0
	stall := guard("request", func() {
		// length not announced (chunked), as the library's own client sends its streams
		req, _ := http.NewRequest("POST", srv.URL+mClientStream, io.MultiReader(bytes.NewReader(body)))
		req.Header.Set("Content-Type", httpgrpc.StreamRpcContentType_V1)
		resp, err := srv.Client().Do(req)
		if err != nil {
			rerr = err
			return
		}
		status = resp.StatusCode
		io.Copy(io.Discard, resp.Body)
		resp.Body.Close()
	})
	if stall != "" {
		return o.failf("server-early-header: %s", stall)
	}
	srv.Close()
	mu.Lock()
	defer mu.Unlock()
	o.Observed = map[string]interface{}{"frames": c.NFrames, "body_bytes": len(body), "delivered": len(got), "final": errStr(final), "http": status, "client_err": errStr(rerr)}
	if len(got) > len(want) {
		return o.failf("server-early-header (%s): %d messages delivered, %d were encoded", c.Carrier, len(got), len(want))
	}
	for i := range got {
		if string(got[i]) != string(want[i]) {
			return o.failf("server-early-header (%s): %d frames of %d bytes in one request of %d bytes, handler sent its headers before receiving: message %d handed to the handler is %q, frame %d holds %q", c.Carrier, c.NFrames, c.FrameSize+6, len(body), i, got[i], i, want[i])
		}
	}
	if final == io.EOF && len(got) != len(want) {
		return o.failf("server-early-header (%s): clean end of stream reported after %d of %d messages", c.Carrier, len(got), len(want))
	}
	return o
}

// propC07ServerUnary: the request body of a unary method. Its length is what the client announces (Content-Length),
// which nothing has verified when the handler starts reading: memory is spent on bytes that arrived, not on the
// announcement; a body that falls short of it is an incomplete request.
func propC07ServerUnary(c c07Case) *Outcome {
	o := &Outcome{NonTrivial: c.Announced != int64(len(c.Body))}
	o.class("side=%s", c.Side)
	o.class("announced-vs-sent=%s", map[bool]string{true: "equal", false: "more-announced"}[c.Announced == int64(len(c.Body))])
	if c.Announced < 0 {
		o.class("length-not-announced")
	}
	var mu sync.Mutex
	var got [][]byte
	svc := &Service{Unary: func(ctx context.Context, req *pb.Message) (*pb.Message, error) {
		mu.Lock()
		got = append(got, detBytes(req))
		mu.Unlock()
		return &pb.Message{}, nil
	}}
	h := newHTTPHandlerBase(c.Carrier, "", newServiceDesc(), svc)
	run := func() (alloc uint64, panicked string, status int) {
		req := httptest.NewRequest("POST", "http://verif.test"+mUnary, bodyReader(c.Body, c.Announced >= 0 && c.Announced != int64(len(c.Body)), c.Chop))
		req.Header.Set("Content-Type", httpgrpc.UnaryRpcContentType_V1)
		req.ContentLength = c.Announced
		w := httptest.NewRecorder()
		var ms1, ms2 runtime.MemStats
		runtime.ReadMemStats(&ms1)
		func() {
			defer func() {
				if r := recover(); r != nil {
					panicked = fmt.Sprintf("%v\n%s", r, debug.Stack())
				}
			}()
			h.ServeHTTP(w, req)
		}()
		runtime.ReadMemStats(&ms2)
		return ms2.TotalAlloc - ms1.TotalAlloc, panicked, w.Code
	}
	c07Serial.Lock()
	alloc, panicked, status := run()
	bound := uint64(wireMaxMessage) + 8*uint64(len(c.Body)) + c07AllocSlack
	for i := 0; i < 4 && panicked == "" && alloc > bound; i++ {
		runtime.GC()
		if a, p, _ := run(); p == "" && a < alloc {
			alloc = a
		}
	}
	c07Serial.Unlock()
	mu.Lock()
	defer mu.Unlock()
	o.Observed = map[string]interface{}{"announced": c.Announced, "sent": len(c.Body), "alloc": alloc, "http": status, "handler_runs": len(got)}
	if panicked != "" {
		return o.failf("server-unary (%s): a request announcing %d bytes and delivering %d made the handler panic: %s", c.Carrier, c.Announced, len(c.Body), firstLine(panicked))
	}
	if alloc > bound {
		return o.failf("server-unary (%s): a request announcing %d bytes and delivering %d cost %d bytes of allocation (bound %d)", c.Carrier, c.Announced, len(c.Body), alloc, bound)
	}
	if c.Announced >= 0 && c.Announced != int64(len(c.Body)) && len(got) > 0 {
		return o.failf("server-unary (%s): the request announced %d bytes, %d arrived, yet the handler ran", c.Carrier, c.Announced, len(c.Body))
	}
	if c.Announced < 0 || c.Announced == int64(len(c.Body)) {
		// a complete request (its length announced or not, i.e. chunked): exactly the message that was encoded
		want := new(pb.Message)
		if proto.Unmarshal(c.Body, want) == nil {
			if len(got) != 1 || string(got[0]) != string(detBytes(want)) {
				return o.failf("server-unary (%s): a complete request of %d bytes (Content-Length %d): the handler ran %d time(s) and did not get the message that was encoded", c.Carrier, len(c.Body), c.Announced, len(got))
			}
		} else if len(got) > 0 {
			return o.failf("server-unary (%s): the request body is not a valid message, yet the handler ran", c.Carrier)
		}
	}
	return o
}

// propC07EchoEarly: a bidi handler that answers its first request before it has read the others (a full-duplex
// habit) behind a real HTTP/1.1 server: net/http stops reading the request at the first flushed response byte. Whatever
// the handler is told then, it is not "the request stream ended here".
func propC07EchoEarly(c c07Case) *Outcome {
	o := &Outcome{NonTrivial: true}
	o.class("side=%s", c.Side)
	var mu sync.Mutex
	got := 0
	var final error
	svc := &Service{Stream: func(kind string, stream grpc.ServerStream) error {
		for {
			m := new(pb.Message)
			err := stream.RecvMsg(m)
			mu.Lock()
			if err != nil {
				final = err
				mu.Unlock()
				if err == io.EOF {
					return nil
				}
				return err
			}
			got++
			first := got == 1
			mu.Unlock()
			if first {
				stream.SendMsg(&pb.Message{Count: 1})
			}
		}
	}}
	srv := httptest.NewServer(newHTTPHandlerBase(c.Carrier, "", newServiceDesc(), svc))
	defer srv.Close()
	u, _ := url.Parse(srv.URL)
	ch := &httpgrpc.Channel{Transport: srv.Client().Transport, BaseURL: u}
	var cerr error
	replies := 0
	stall := guard("call", func() {
		ctx, cancel := context.WithCancel(context.Background())
		defer cancel()
		cs, err := ch.NewStream(ctx, streamDescOf(kBidi), mBidi)
		if err != nil {
			cerr = err
			return
		}
		for i := 0; i < c.NFrames; i++ {
			if cs.SendMsg(&pb.Message{Payload: bytes.Repeat([]byte{byte('a' + i%26)}, c.FrameSize)}) != nil {
				break
			}
		}
		cs.CloseSend()
		for {
			if cerr = cs.RecvMsg(new(pb.Message)); cerr != nil {
				return
			}
			replies++
		}
	})
	if stall != "" {
		return o.failf("server-echo-early: %s", firstLine(stall))
	}
	srv.Close()
	mu.Lock()
	defer mu.Unlock()
	o.Observed = map[string]interface{}{"sent": c.NFrames, "handler_got": got, "handler_final": errStr(final), "client_final": errStr(cerr), "replies": replies}
	if final == io.EOF && got != c.NFrames {
		return o.failf("server-echo-early (%s): the client sent %d messages and closed; the handler answered the first one at once, received %d and was then told the request stream had ended cleanly (io.EOF)", c.Carrier, c.NFrames, got)
	}
	if cerr == io.EOF && got != c.NFrames {
		return o.failf("server-echo-early (%s): the client sent %d messages, the handler received %d, and the call ended with success", c.Carrier, c.NFrames, got)
	}
	return o
}

// propC07RoundTrip: "yields exactly the framed messages that were encoded", with the encoder the library's own.
func propC07RoundTrip(c c07Case) *Outcome {
	o := &Outcome{NonTrivial: len(c.Sizes) > 0}
	o.class("side=%s", c.Side)
	mk := func(i, n int) []byte {
		b := make([]byte, max(0, n))
		for j := range b {
			b[j] = byte(i*31 + j*7 + j>>8)
		}
		return b
	}
	var mu sync.Mutex
	var srvGot [][]byte
	var srvFinal error
	svc := &Service{Stream: func(kind string, stream grpc.ServerStream) error {
		var got [][]byte
		for {
			m := new(pb.Message)
			err := stream.RecvMsg(m)
			if err != nil {
				mu.Lock()
				srvGot, srvFinal = got, err
				mu.Unlock()
				if err != io.EOF {
					return err
				}
				break
			}
			got = append(got, m.Payload)
		}
		for i, p := range got {
			if err := stream.SendMsg(&pb.Message{Payload: p, Count: int32(i)}); err != nil {
				return err
			}
		}
		if c.FinalCode != 0 {
			return status.Error(codes.Code(c.FinalCode), strings.Repeat("m", c.FinalLen))
		}
		return nil
	}}
	srv := httptest.NewServer(newHTTPHandlerBase(c.Carrier, "", newServiceDesc(), svc))
	defer srv.Close()
	u, _ := url.Parse(srv.URL)
	ch := &httpgrpc.Channel{Transport: srv.Client().Transport, BaseURL: u}
	var cerr error
	var cliGot [][]byte
	stall := guard("call", func() {
		ctx, cancel := context.WithCancel(context.Background())
		defer cancel()
		cs, err := ch.NewStream(ctx, streamDescOf(kBidi), mBidi)
		if err != nil {
			cerr = err
			return
		}
		for i, n := range c.Sizes {
			if cerr = cs.SendMsg(&pb.Message{Payload: mk(i, n)}); cerr != nil {
				return
			}
		}
		cs.CloseSend()
		for {
			m := new(pb.Message)
			if cerr = cs.RecvMsg(m); cerr != nil {
				return
			}
			cliGot = append(cliGot, m.Payload)
		}
	})
	if stall != "" {
		return o.failf("roundtrip: %s", firstLine(stall))
	}
	mu.Lock()
	defer mu.Unlock()
	lens := func(l [][]byte) []int {
		var r []int
		for _, b := range l {
			r = append(r, len(b))
		}
		return r
	}
	o.Observed = map[string]interface{}{"sizes": c.Sizes, "handler_got": lens(srvGot), "handler_final": errStr(srvFinal), "client_got": lens(cliGot), "client_final": errStr(cerr)}
	for i, p := range srvGot {
		if i >= len(c.Sizes) || !bytes.Equal(p, mk(i, c.Sizes[i])) {
			return o.failf("roundtrip (%s): the handler's message #%d (%d bytes) is not the client's message #%d (payload sizes sent: %v)", c.Carrier, i, len(p), i, c.Sizes)
		}
	}
	if srvFinal == io.EOF && len(srvGot) != len(c.Sizes) {
		return o.failf("roundtrip (%s): the client sent %d messages, the handler got %d and then a clean end of stream", c.Carrier, len(c.Sizes), len(srvGot))
	}
	for i, p := range cliGot {
		if i >= len(srvGot) || !bytes.Equal(p, srvGot[i]) {
			return o.failf("roundtrip (%s): the client's reply #%d (%d bytes) is not what the handler sent as #%d (payload sizes: %v)", c.Carrier, i, len(p), i, c.Sizes)
		}
	}
	if srvFinal == io.EOF {
		if c.FinalCode == 0 && (cerr != io.EOF || len(cliGot) != len(c.Sizes)) {
			return o.failf("roundtrip (%s): %d messages sent, echoed and answered with success: the client got %d replies and %v (payload sizes: %v)", c.Carrier, len(c.Sizes), len(cliGot), cerr, c.Sizes)
		}
		if c.FinalCode != 0 {
			if st, _ := status.FromError(cerr); cerr == io.EOF || cerr == nil || int(st.Code()) != c.FinalCode || st.Message() != strings.Repeat("m", c.FinalLen) {
				return o.failf("roundtrip (%s): the handler returned code %d with a %d-byte message after echoing %d messages: the client got %d replies and %v", c.Carrier, c.FinalCode, c.FinalLen, len(c.Sizes), len(cliGot), firstLine(errStr(cerr)))
			}
		}
	} else if cerr == io.EOF {
		return o.failf("roundtrip (%s): the handler's receive failed (%v) and the call ended with success", c.Carrier, srvFinal)
	}
	return o
}

func propC07(c c07Case) *Outcome {
	if c.Side == "roundtrip" {
		return propC07RoundTrip(c)
	}
	if c.Side == "server-echo-early" {
		return propC07EchoEarly(c)
	}
	if c.Side == "server-unary" {
		return propC07ServerUnary(c)
	}
	if c.Side == "client-unary" {
		return propC07Unary(c)
	}
	if c.Side == "server-early-header" {
		return propC07EarlyHeader(c)
	}
	o := &Outcome{}
	o.class("side=%s", c.Side)
	if c.Chop > 0 {
		o.class("chopped-reads")
	}
	if c.Origin != "" {
		o.class("origin=%s", c.Origin)
	}
	ref := refDecode(c.Body)
	c07Serial.Lock()
	run := func() *c07Obs {
		if strings.HasPrefix(c.Side, "server") {
			return c07Server(&c)
		}
		return c07Client(&c)
	}
	obs := run()
	// TotalAlloc is process-wide: anything else allocating in this process (the fuzzing engine,
	// goroutines of earlier cases winding down) inflates one measurement. An over-allocation
	// caused by the body itself is deterministic, so the minimum of a few runs decides.
	for i := 0; i < 4 && obs.Alloc > uint64(wireMaxMessage)+8*uint64(len(c.Body))+c07AllocSlack; i++ {
		runtime.GC()
		if again := run(); again.Alloc < obs.Alloc {
			obs.Alloc = again.Alloc
		}
	}
	c07Serial.Unlock()
	o.Observed = map[string]interface{}{"delivered": len(obs.Msgs), "final": obs.Final, "alloc": obs.Alloc, "ref_frames": len(ref.Frames), "ref_err": fmt.Sprint(ref.Err), "ref_trailer": ref.HasTrailer}
	validComplete := ref.Err == nil && ref.TrailerOK && ref.TrailerMsg.Code == 0
	allValid := true
	for _, f := range ref.Frames {
		allValid = allValid && validMsg(f)
	}
	o.NonTrivial = (len(ref.Frames) >= 1 && !(validComplete && allValid)) || ref.Oversized || (ref.TruncatedAt >= 0)
	if obs.Panic != "" {
		return o.failf("%s: panic: %s", c.Side, obs.Panic)
	}
	if obs.Stalled != "" {
		return o.failf("%s: stall: %s", c.Side, obs.Stalled)
	}
	// memory: never more than the per-message limit on the strength of an unverified prefix
	if bound := uint64(wireMaxMessage) + 8*uint64(len(c.Body)) + c07AllocSlack; obs.Alloc > bound {
		return o.failf("%s: decoding a %d-byte body allocated %d bytes (bound %d)", c.Side, len(c.Body), obs.Alloc, bound)
	}
	// no oversized allocation for a frame that is not actually there: a declared size above the
	// bytes present can cost at most the limit, and only once (the stream is over after that)
	// delivered messages are an intact prefix of the reference frames
	if len(obs.Msgs) > len(ref.Frames) {
		return o.failf("%s: %d messages delivered but the body holds only %d complete frames (fabricated message)", c.Side, len(obs.Msgs), len(ref.Frames))
	}
	for i, m := range obs.Msgs {
		want := new(pb.Message)
		if err := proto.Unmarshal(ref.Frames[i], want); err != nil {
			return o.failf("%s: message %d delivered although frame %d is not a valid encoding", c.Side, i, i)
		}
		if string(m) != string(detBytes(want)) {
			return o.failf("%s: delivered message %d differs from frame %d", c.Side, i, i)
		}
	}
	if strings.HasPrefix(c.Side, "server") {
		// a request stream ends at a clean EOF on a frame boundary
		cleanEnd := ref.Err == errRefNoTrailer && !c.Abrupt
		if c.Side == "server-ss" && len(ref.Frames) > 1 {
			// more than the one request the method takes: reported as an error, so no clean end may be reported
			// and nothing obliges the decoder to accept the body
			if obs.Final.EOF {
				return o.failf("server-ss: body holds %d frames for a method that takes one request, yet RecvMsg reported a clean end of stream after %d message(s)", len(ref.Frames), len(obs.Msgs))
			}
			return o
		}
		if obs.Final.EOF {
			if !cleanEnd {
				return o.failf("server: request body is malformed or cut (ref: %v, abrupt=%v) yet RecvMsg reported a clean end of stream", ref.Err, c.Abrupt)
			}
			if len(obs.Msgs) != len(ref.Frames) {
				return o.failf("server: clean end reported after %d of %d messages", len(obs.Msgs), len(ref.Frames))
			}
		} else if cleanEnd && allValid {
			return o.failf("server: well-formed request body of %d frames rejected: %s", len(ref.Frames), obs.Final.Raw)
		}
		return o
	}
	if c.RTErr != "" {
		o.class("round-trip-fails=%s", c.RTErr)
		o.NonTrivial = true
		if obs.Final.EOF || obs.Final.Nil || len(obs.Msgs) > 0 {
			return o.failf("%s: the round trip failed (%s), no reply ever arrived, yet the call ended with %d messages and %s", c.Side, c.RTErr, len(obs.Msgs), obs.Final.Raw)
		}
		return o
	}
	success := obs.Final.EOF
	if c.Side == "client-cs" {
		success = len(obs.Msgs) >= 1
		if len(obs.Msgs) > 1 {
			return o.failf("client-cs: %d messages handed out for a single-response method", len(obs.Msgs))
		}
	}
	if success {
		if !validComplete {
			return o.failf("%s: body is not a complete OK reply (ref: err=%v trailer=%v) yet the call is reported as success", c.Side, ref.Err, ref.HasTrailer)
		}
		if c.Side == "client-ss" && len(obs.Msgs) != len(ref.Frames) {
			return o.failf("client-ss: success after %d of %d messages", len(obs.Msgs), len(ref.Frames))
		}
		if c.Side == "client-cs" && len(ref.Frames) != 1 {
			return o.failf("client-cs: success although the reply holds %d messages", len(ref.Frames))
		}
	} else {
		if obs.Final.Nil {
			return o.failf("%s: no final error recorded", c.Side)
		}
		wantOK := validComplete && allValid && (c.Side == "client-ss" || len(ref.Frames) == 1)
		if wantOK {
			return o.failf("%s: complete well-formed reply of %d frames rejected: %s", c.Side, len(ref.Frames), obs.Final.Raw)
		}
		if ref.Err == nil && ref.TrailerOK && ref.TrailerMsg.Code != 0 && allValid && c.Side == "client-ss" {
			if obs.Final.Code != uint32(ref.TrailerMsg.Code) {
				return o.failf("client-ss: trailer carries code %d, client reports %d (%s)", ref.TrailerMsg.Code, obs.Final.Code, obs.Final.Raw)
			}
		}
	}
	return o
}

var hostilePrefixes = [][]byte{{0, 0, 0, 0}, {0xff, 0xff, 0xff, 0xff}, {0x80, 0, 0, 0}, {0x7f, 0xff, 0xff, 0xff}, {0x06, 0x40, 0x00, 0x00}, {0x06, 0x40, 0x00, 0x01}, {0x06, 0x3f, 0xff, 0xff},
	{0xf9, 0xc0, 0x00, 0x00}, {0xf9, 0xbf, 0xff, 0xff}, {0x80, 0, 0, 1}, {0, 0, 0, 1}, {0xff, 0xff, 0xff, 0xfe}}

func genC07Body(t *rapid.T, forServer bool, single ...bool) ([]byte, string) {
	switch rapid.IntRange(0, 9).Draw(t, "origin") {
	case 0:
		return rapid.SliceOfN(rapid.Byte(), 0, 64).Draw(t, "raw"), "raw-bytes"
	case 1:
		b := append([]byte{}, rapid.SampledFrom(hostilePrefixes).Draw(t, "prefix")...)
		return append(b, rapid.SliceOfN(rapid.Byte(), 0, 16).Draw(t, "tail")...), "hostile-prefix-first"
	}
	// valid encoding of a message list (+ trailer for replies), then mutated
	n := rapid.IntRange(0, 5).Draw(t, "nmsgs")
	if len(single) > 0 && single[0] {
		// a method that takes exactly one request: bodies of one frame (plus whatever the mutation adds) matter most
		n = rapid.SampledFrom([]int{0, 1, 1, 1, 1, 2}).Draw(t, "nmsgs1")
	}
	var msgs []proto.Message
	for i := 0; i < n; i++ {
		msgs = append(msgs, genMsg(t, "m", 600).Build())
	}
	if n >= 2 && rapid.IntRange(0, 5).Draw(t, "bigone") == 0 {
		// one large message among small ones (buffer-retention boundaries: 4 KiB .. 70 KB)
		k := rapid.IntRange(0, n-2).Draw(t, "bigat")
		msgs[k] = MsgSpec{Size: rapid.SampledFrom([]int{4096, 16383, 16384, 20000, 32768, 65536, 70000}).Draw(t, "bigsize"), Fill: 9}.Build()
	}
	var tr *httpgrpc.HttpTrailer
	if !forServer {
		tr = &httpgrpc.HttpTrailer{Code: rapid.SampledFrom([]int32{0, 0, 0, 2, 5, 13}).Draw(t, "trcode"), Message: "OK"}
		if rapid.Bool().Draw(t, "trmd") {
			tr.Metadata = map[string]*httpgrpc.TrailerValues{"k": {Values: []string{"v1", "v2"}}}
		}
	}
	body := encodeStream(msgs, tr)
	origin := "valid"
	switch rapid.IntRange(0, 7).Draw(t, "mutation") {
	case 0, 1:
	case 2, 3:
		if len(body) > 0 {
			body = body[:rapid.IntRange(0, len(body)-1).Draw(t, "cut")]
			origin = "valid+truncated"
		}
	case 4:
		if len(body) > 0 {
			body = append([]byte{}, body...)
			i := rapid.IntRange(0, len(body)-1).Draw(t, "flip")
			body[i] ^= byte(1 << rapid.IntRange(0, 7).Draw(t, "bit"))
			origin = "valid+bitflip"
		}
	case 5:
		// splice a hostile prefix at a frame boundary
		k := rapid.IntRange(0, n).Draw(t, "splice-at")
		pre := encodeStream(msgs[:k], nil)
		b := append(append([]byte{}, pre...), rapid.SampledFrom(hostilePrefixes).Draw(t, "prefix")...)
		body = append(b, rapid.SliceOfN(rapid.Byte(), 0, 12).Draw(t, "tail")...)
		origin = "valid+hostile-prefix"
	case 6:
		body = append(append([]byte{}, body...), rapid.SliceOfN(rapid.Byte(), 1, 12).Draw(t, "garbage")...)
		origin = "valid+trailing-garbage"
	case 7:
		body = encodeStream(msgs, nil)
		origin = "valid-without-trailer"
	}
	return body, origin
}

func genC07(t *rapid.T) c07Case {
	c := c07Case{Side: rapid.SampledFrom([]string{"client-ss", "client-ss", "client-cs", "server", "server", "server-ss", "client-unary"}).Draw(t, "side"), Abrupt: rapid.IntRange(0, 3).Draw(t, "abrupt") == 0}
	if rapid.IntRange(0, 599).Draw(t, "earlyheader") == 0 {
		// (a handful per run: each is a request of 0.3 .. 1 MiB through a real server)
		c = c07Case{Side: "server-early-header", Carrier: rapid.SampledFrom([]string{cHTTP, cHTTPMux, cHTTPPer}).Draw(t, "ehcarrier")}
		// (frames of 13, 37, 65 and 109 bytes divide 256 KiB + 1, the amount net/http skips at most)
		c.FrameSize = rapid.SampledFrom([]int{7, 7, 31, 59, 103, 1, 100}).Draw(t, "ehsize")
		c.NFrames = (300<<10)/(c.FrameSize+6) + rapid.IntRange(1, 40000).Draw(t, "ehmore")
		if c.NFrames*(c.FrameSize+6) > 1<<20 {
			c.NFrames = (1 << 20) / (c.FrameSize + 6)
		}
		return c
	}
	if rapid.IntRange(0, 19).Draw(t, "roundtrip") == 0 {
		c = c07Case{Side: "roundtrip", Carrier: rapid.SampledFrom([]string{cHTTP, cHTTPMux, cHTTPPer}).Draw(t, "rtcarrier")}
		// payload sizes: anything small, and runs around the powers of two (where buffers and fast paths change over)
		n := rapid.IntRange(1, 24).Draw(t, "rtn")
		base := 1 << rapid.IntRange(3, 16).Draw(t, "rtpow")
		start := rapid.IntRange(-12, 2).Draw(t, "rtstart")
		sweep := rapid.IntRange(0, 2).Draw(t, "rtsweep") > 0
		for i := 0; i < n; i++ {
			if sweep {
				c.Sizes = append(c.Sizes, max(0, base+start+i%14))
			} else {
				c.Sizes = append(c.Sizes, rapid.IntRange(0, 1200).Draw(t, "rtsize"))
			}
		}
		// the trailer goes through the same encoder: its size is moved by the length of the status message
		c.FinalCode = rapid.SampledFrom([]int{0, 0, 1, 2, 3, 5, 6, 7, 8, 9, 10, 11, 12, 13, 14, 15, 16}).Draw(t, "rtfinal")
		if c.FinalCode != 0 {
			c.FinalLen = rapid.SampledFrom([]int{0, 5, 100, 240, 250, 260, 490, 495, 500, 501, 502, 503, 504, 505, 506, 507, 508, 509, 510, 515, 1015, 1020, 1025}).Draw(t, "rtfinallen")
		}
		return c
	}
	if rapid.IntRange(0, 149).Draw(t, "echoearly") == 0 {
		return c07Case{Side: "server-echo-early", Carrier: rapid.SampledFrom([]string{cHTTP, cHTTPMux, cHTTPPer}).Draw(t, "eecarrier"),
			NFrames: rapid.IntRange(2, 6).Draw(t, "eeframes"), FrameSize: rapid.SampledFrom([]int{0, 5, 300, 5000}).Draw(t, "eesize")}
	}
	if rapid.IntRange(0, 24).Draw(t, "serverunary") == 0 {
		c = c07Case{Side: "server-unary", Carrier: rapid.SampledFrom([]string{cHTTP, cHTTPMux, cHTTPPer}).Draw(t, "sucarrier")}
		c.Body = mustMarshal(genMsg(t, "sumsg", 600).Build())
		c.Body = c.Body[:rapid.IntRange(0, len(c.Body)).Draw(t, "susent")]
		c.Announced = int64(len(c.Body))
		if rapid.IntRange(0, 3).Draw(t, "suchunked") == 0 {
			// the whole message, its length not announced (Transfer-Encoding: chunked: a proxy, curl -T, a non-Go client)
			c.Body = mustMarshal(genMsg(t, "sumsg2", 600).Build())
			c.Announced = -1
		} else if rapid.IntRange(0, 3).Draw(t, "suhonest") > 0 {
			c.Announced = rapid.SampledFrom([]int64{int64(len(c.Body)) + 1, int64(len(c.Body)) + 1000, 100 << 20, 400000000, 1 << 31, 1 << 62, 1<<63 - 1}).Draw(t, "suannounced")
		}
		// (no value in between: a terabyte-sized make() is a fatal out-of-memory error of the runtime, which no test process survives)
		c.Chop = rapid.SampledFrom([]int{0, 0, 1, 7}).Draw(t, "suchop")
		return c
	}
	if (c.Side == "client-ss" || c.Side == "client-cs") && rapid.IntRange(0, 19).Draw(t, "rterr") == 0 {
		c.RTErr = rapid.SampledFrom([]string{"eof", "eof", "unexpected-eof", "reset"}).Draw(t, "rterrkind")
		return c
	}
	if c.Side == "client-unary" {
		c.Chop = rapid.SampledFrom([]int{0, 0, 0, 1, 2, 3, 5, 7}).Draw(t, "chop")
		full := mustMarshal(genMsg(t, "umsg", 600).Build())
		c.Body, c.Origin = full, "unary-valid"
		switch rapid.IntRange(0, 5).Draw(t, "umutation") {
		case 0:
		case 1, 2:
			// cut on a field boundary (what arrived decodes on its own), ending the way net/http ends a short body
			var bounds []int
			for off := 0; off < len(full); {
				_, _, n := protowire.ConsumeField(full[off:])
				if n <= 0 {
					break
				}
				bounds = append(bounds, off)
				off += n
			}
			if len(bounds) > 0 {
				c.Body, c.Origin, c.Abrupt = full[:rapid.SampledFrom(bounds).Draw(t, "ucutbound")], "unary-cut-on-field-boundary", true
			}
		case 3:
			if len(full) > 0 {
				c.Body, c.Origin, c.Abrupt = full[:rapid.IntRange(0, len(full)-1).Draw(t, "ucut")], "unary-cut", rapid.Bool().Draw(t, "ucutabrupt")
			}
		case 4:
			c.Body, c.Origin = rapid.SliceOfN(rapid.Byte(), 0, 40).Draw(t, "uraw"), "unary-raw-bytes"
		case 5:
			c.Body, c.Origin = append(append([]byte{}, full...), rapid.SliceOfN(rapid.Byte(), 1, 8).Draw(t, "ugarbage")...), "unary-trailing-garbage"
		}
		return c
	}
	c.Chop = rapid.SampledFrom([]int{0, 0, 0, 1, 2, 3, 5, 7}).Draw(t, "chop")
	c.MaxRecv = !strings.HasPrefix(c.Side, "server") && rapid.IntRange(0, 3).Draw(t, "maxrecv") == 0
	c.Body, c.Origin = genC07Body(t, strings.HasPrefix(c.Side, "server"), c.Side == "server-ss")
	return c
}

// recorded real replies, every truncation offset, clean and abrupt endings.
func c07Recorded() []c07Case {
	var cs []c07Case
	lists := [][]MsgSpec{nil, {{Empty: true}}, {{Raw: []byte("hello")}, {Empty: true}, {Size: 300, Fill: 7}}, {{Raw: []byte{1}}, {Raw: []byte{2}}, {Raw: []byte{3}}, {Raw: []byte{4}}}}
	finals := []ErrSpec{{Kind: "nil"}, {Kind: "status", Code: 9, Msg: []byte("nope")}}
	for _, l := range lists {
		for _, f := range finals {
			s := Script{Kind: kServerStream, Reqs: []MsgSpec{{}}, Resps: l, Final: f, HeaderAt: -1}
			s.HOps = append(s.HOps, HOp{Op: "settlr", MD: MDSpec{{K: "zz", V: []byte("t")}}})
			for i := range l {
				s.HOps = append(s.HOps, HOp{Op: "send", Msg: i})
			}
			if len(l) == 0 {
				s.Resps = []MsgSpec{{}}
			}
			body := recordReplyBody(&s)
			for k := 0; k <= len(body); k++ {
				for _, abrupt := range []bool{false, true} {
					cs = append(cs, c07Case{Side: "client-ss", Body: body[:k], Abrupt: abrupt, Origin: "recorded-reply-cut"})
				}
			}
			for _, chop := range []int{1, 2, 3, 5} {
				cs = append(cs, c07Case{Side: "client-ss", Body: body, Chop: chop, Origin: "recorded-reply-chopped"})
			}
		}
	}
	return cs
}

// recordReplyBody runs the script's handler inside the real httpgrpc server and returns the
// reply body it produced.
func recordReplyBody(s *Script) []byte {
	o := &Obs{}
	var mu sync.Mutex
	srv := httpgrpc.NewServer()
	srv.RegisterService(newServiceDesc(), scriptService(s, o, &mu))
	var reqs []proto.Message
	for _, r := range s.Reqs {
		reqs = append(reqs, r.Build())
	}
	req := httptest.NewRequest("POST", "http://verif.test"+methodOf(s.Kind), bytes.NewReader(encodeStream(reqs, nil)))
	req.Header.Set("Content-Type", httpgrpc.StreamRpcContentType_V1)
	w := httptest.NewRecorder()
	srv.ServeHTTP(w, req)
	return w.Body.Bytes()
}

func init() { registerReplay("C07", propC07) }

const c07Rule = "bodies fed to the client stream decoder (server-streaming and single-response) and to the unary client (whole body = the message; cut at a field boundary or anywhere, ending with the transport's io.ErrUnexpectedEOF or cleanly) through a replaying RoundTripper (which may also fail the round trip outright: bare io.EOF, unexpected EOF, reset), unary requests announcing more than they deliver (up to 2^63-1), request streams of 0.3 .. 1 MiB through a real net/http server to a handler that sends its headers before it receives and to the server stream decoder through httptest (a bidi method and a method that takes exactly one request), round trips through the library's own encoders and decoders in both directions over a real server (1..24 messages with payload sizes 0..1200 or running across a power of two, echoed, then success or a status whose message moves the size of the trailer frame: both sides compare byte for byte): rapid byte strings, hostile 4-byte prefixes (0, -1, MinInt32, MaxInt32, limit, limit+-1), valid encodings of generated message lists + trailer mutated by truncation / bit flip / spliced hostile prefix / trailing garbage / missing trailer, " +
	"and every truncation offset of 8 recorded real replies, each ending cleanly (io.EOF) and abruptly (io.ErrUnexpectedEOF), delivered whole or at most 1..7 bytes per Read; oracle = independent reference decoder (delivered messages are an intact prefix of the reference frames; success iff the reference sees a complete OK reply; reference error => SUT error), no panic, TotalAlloc delta <= 100 MiB limit + 8*len(body) + 6 MiB; " +
	"non-trivial = body with >=1 complete frame that is not a complete valid OK stream, or an oversized prefix, or a cut inside a frame; distinct by case hash"

func TestC07(t *testing.T) {
	rec("C07").rule = c07Rule
	runEnum(t, "C07", c07Recorded(), propC07)
	if t.Failed() {
		return
	}
	runProp(t, "C07", c07Rule, genC07, propC07)
}

func c07FuzzSeeds(f *testing.F) {
	f.Add([]byte{}, byte(0))
	for _, p := range hostilePrefixes {
		f.Add(p, byte(0))
		f.Add(append(append([]byte{}, p...), 1, 2, 3), byte(1))
	}
	m1 := &pb.Message{Payload: []byte("abc"), Count: 3}
	ok := encodeStream([]proto.Message{m1, &pb.Message{}}, &httpgrpc.HttpTrailer{Code: 0, Message: "OK"})
	f.Add(ok, byte(0))
	f.Add(ok, byte(1<<2))
	f.Add(ok, byte(3<<2))
	f.Add(ok[:len(ok)-1], byte(0))
	f.Add(ok[:len(ok)-1], byte(1))
	f.Add(encodeStream([]proto.Message{m1}, nil), byte(0))
	f.Add(encodeStream(nil, &httpgrpc.HttpTrailer{Code: 5, Message: "nf"}), byte(2))
	f.Add(mustMarshal(m1), byte(32))
	f.Add(mustMarshal(m1)[:5], byte(33))
}

// FuzzClientBody: coverage-guided search over reply bodies (flags: bit0 abrupt, bit1 single-response, bit5 unary reply).
func FuzzClientBody(f *testing.F) {
	c07FuzzSeeds(f)
	f.Fuzz(func(t *testing.T, body []byte, flags byte) {
		c := c07Case{Side: "client-ss", Body: body, Abrupt: flags&1 != 0, Chop: int(flags>>2) & 7, Origin: "native-fuzz"}
		if flags&2 != 0 {
			c.Side = "client-cs"
		}
		if flags&32 != 0 {
			c.Side = "client-unary"
		}
		if o := propC07(c); o.Fail != "" {
			t.Fatalf("C07: %s", o.Fail)
		}
	})
}

// FuzzServerBody: coverage-guided search over request bodies (flags: bit0 abrupt, bit1 method that takes one request).
func FuzzServerBody(f *testing.F) {
	c07FuzzSeeds(f)
	f.Fuzz(func(t *testing.T, body []byte, flags byte) {
		c := c07Case{Side: "server", Body: body, Abrupt: flags&1 != 0, Chop: int(flags>>2) & 7, Origin: "native-fuzz"}
		if flags&2 != 0 {
			c.Side = "server-ss"
		}
		if o := propC07(c); o.Fail != "" {
			t.Fatalf("C07: %s", o.Fail)
		}
	})
}
