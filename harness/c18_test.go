package harness

// C18 — every cloner adapter produces equal, deep and independent copies.

import (
	"bytes"
	"fmt"
	"runtime/debug"
	"strings"
	"sync"
	"sync/atomic"
	"testing"
	"time"

	v1proto "github.com/golang/protobuf/proto"
	"github.com/jhump/protoreflect/desc"
	"github.com/jhump/protoreflect/dynamic"
	"google.golang.org/grpc/encoding"
	grpcproto "google.golang.org/grpc/encoding/proto"
	"google.golang.org/protobuf/proto"
	"google.golang.org/protobuf/reflect/protoreflect"
	"google.golang.org/protobuf/types/known/anypb"
	"google.golang.org/protobuf/types/known/emptypb"
	"google.golang.org/protobuf/types/known/structpb"
	"google.golang.org/protobuf/types/known/timestamppb"
	"google.golang.org/protobuf/types/known/wrapperspb"
	"pgregory.net/rapid"

	pb "github.com/fullstorydev/grpchan/grpchantesting"
	"github.com/fullstorydev/grpchan/httpgrpc"
	"github.com/fullstorydev/grpchan/inprocgrpc"
	binlogpb "google.golang.org/grpc/binarylog/grpc_binarylog_v1"
)

type c18Val struct {
	Type  string // msg | trailer | struct | any | timestamp | empty | stringvalue | bytesvalue
	Dyn   bool   // dynamic representation (msg, trailer only)
	Bytes []byte // wire encoding of the content
}

type c18Case struct {
	Adapter string // proto | codec | clonefunc | copyfunc
	Op      string // clone | copy
	Src     c18Val
	Dst     string // copy: empty | filled | other-repr | other-repr-filled | other-type | non-proto
	DstFill c18Val `json:",omitempty"`
	// Poison: the adapter has just been through copies that fail (a dynamic message whose string field is not
	// valid UTF-8 into a generated one; a message into a non-message); a failure leaves nothing behind
	Poison bool `json:",omitempty"`
	// Conc > 0: separate mode - Conc goroutines share one adapter instance (as concurrent calls on one channel do)
	// and each clones and copies a message of its own, ConcRounds times; every result is its caller's message
	Conc       int `json:",omitempty"`
	ConcRounds int `json:",omitempty"`
	// Odd != "": separate small modes. "bad-source": a generated Message whose map has a key that is not valid UTF-8
	// (it cannot be serialised) is copied into a dynamic message of the same type: refused, or copied completely
	// and independently - never "success" with the source's memory inside. "other-desc": a dynamic message is copied
	// into a dynamic message of the same type whose descriptor was built separately (a proxy that loaded the same
	// .proto twice): the same message type, so the copy succeeds.
	Odd string `json:",omitempty"`
}

func c18OtherDesc(typ string) *desc.MessageDescriptor {
	md := c18Desc(typ)
	fd := md.GetFile()
	fd2, err := desc.CreateFileDescriptor(fd.AsFileDescriptorProto(), fd.GetDependencies()...)
	if err != nil {
		panic(err)
	}
	return fd2.FindMessage(md.GetFullyQualifiedName())
}

func c18Odd(c c18Case) *Outcome {
	o := &Outcome{NonTrivial: true}
	o.class("adapter=%s/%s", c.Adapter, c.Odd)
	cl := c18Adapter(c.Adapter)
	var err error
	panicked := ""
	call := func(f func()) {
		defer func() {
			if r := recover(); r != nil {
				panicked = fmt.Sprintf("%v\n%s", r, debug.Stack())
			}
		}()
		f()
	}
	switch c.Odd {
	case "bad-source":
		payload := []byte("payload-bytes-of-the-source")
		src := &pb.Message{Count: 3, Payload: payload, Headers: map[string][]byte{"bin-key\xff": []byte("value-bytes")}}
		dst := dynamic.NewMessage(c18Desc("msg"))
		call(func() { err = cl.Copy(dst, src) })
		if panicked != "" {
			return o.failf("%s.Copy(dynamic <- generated message that cannot be serialised) panicked: %s", c.Adapter, firstLine(panicked))
		}
		o.Observed = map[string]interface{}{"err": errStr(err)}
		if err != nil {
			return o // refused: fine
		}
		// accepted: then it is a complete copy that shares nothing
		flipBytes(dst)
		if string(src.Payload) != "payload-bytes-of-the-source" || string(src.Headers["bin-key\xff"]) != "value-bytes" {
			return o.failf("%s.Copy(dynamic <- generated message whose map key is not valid UTF-8) returned nil, and the copy shares the source's byte arrays", c.Adapter)
		}
	case "other-desc":
		src := c18Val{Type: "msg", Dyn: true, Bytes: c.Src.Bytes}.build()
		dst := dynamic.NewMessage(c18OtherDesc("msg"))
		dst.TrySetFieldByName("count", int32(99))
		call(func() { err = cl.Copy(dst, src) })
		if panicked != "" {
			return o.failf("%s.Copy between dynamic messages of one type with separately built descriptors panicked: %s", c.Adapter, firstLine(panicked))
		}
		o.Observed = map[string]interface{}{"err": errStr(err)}
		if err != nil {
			return o.failf("%s.Copy between two dynamic messages of the same message type (descriptors built separately) was refused: %v", c.Adapter, err)
		}
		want, _ := c18Wire(src)
		if got, _ := c18Wire(dst); string(got) != string(want) {
			return o.failf("%s.Copy between two dynamic messages of the same type (descriptors built separately): destination differs from the source", c.Adapter)
		}
	}
	return o
}

func c18Concurrent(c c18Case) *Outcome {
	o := &Outcome{NonTrivial: true}
	o.class("adapter=%s/concurrent=%d/dyn=%v", c.Adapter, c.Conc, c.Src.Dyn)
	cl := c18Adapter(c.Adapter)
	var mu sync.Mutex
	fault := ""
	var wg sync.WaitGroup
	var stop atomic.Bool
	for g := 0; g < c.Conc; g++ {
		wg.Add(1)
		go func(g int) {
			defer wg.Done()
			defer func() {
				if r := recover(); r != nil {
					mu.Lock()
					if fault == "" {
						fault = fmt.Sprintf("goroutine %d: panic: %v", g, r)
					}
					mu.Unlock()
					stop.Store(true)
				}
			}()
			own := c18Val{Type: "msg", Dyn: c.Src.Dyn, Bytes: mustMarshal(&pb.Message{Count: int32(g + 1), Payload: bytes.Repeat([]byte{byte('a' + g)}, 8+g)})}
			src := own.build()
			want, _ := c18Wire(src)
			for r := 0; r < c.ConcRounds && !stop.Load(); r++ {
				var got interface{}
				var err error
				what := "Clone"
				if r%2 == 0 {
					got, err = cl.Clone(src)
				} else {
					what = "Copy"
					got = c18Val{Type: "msg", Dyn: c.Src.Dyn}.build()
					err = cl.Copy(got, src)
				}
				b, werr := c18Wire(got)
				if err != nil || werr != nil || string(b) != string(want) || got == src {
					mu.Lock()
					if fault == "" {
						fault = fmt.Sprintf("%d goroutines sharing one %s adapter: %s #%d of goroutine %d returned err=%v, a message %x (its own is %x, same object as the source: %v)", c.Conc, c.Adapter, what, r, g, err, b, want, got == src)
					}
					mu.Unlock()
					stop.Store(true)
					return
				}
			}
		}(g)
	}
	if st := guard("concurrent clones", wg.Wait); st != "" {
		return o.failf("%s", st)
	}
	if fault != "" {
		return o.failf("%s", fault)
	}
	return o
}

func c18New(typ string) proto.Message {
	switch typ {
	case "msg":
		return new(pb.Message)
	case "msg2":
		// another package's message that is also called "Message" (grpc.binarylog.v1.Message)
		return new(binlogpb.Message)
	case "trailer":
		return new(httpgrpc.HttpTrailer)
	case "struct":
		return new(structpb.Struct)
	case "any":
		return new(anypb.Any)
	case "timestamp":
		return new(timestamppb.Timestamp)
	case "empty":
		return new(emptypb.Empty)
	case "stringvalue":
		return new(wrapperspb.StringValue)
	default:
		return new(wrapperspb.BytesValue)
	}
}

func c18Desc(typ string) *desc.MessageDescriptor {
	md, err := desc.LoadMessageDescriptorForMessage(v1proto.MessageV1(c18New(typ)))
	if err != nil {
		panic(err)
	}
	return md
}

// build materialises the value in its representation.
func (v c18Val) build() interface{} {
	if v.Dyn {
		dm := dynamic.NewMessage(c18Desc(v.Type))
		if err := dm.Unmarshal(v.Bytes); err != nil {
			panic(err)
		}
		return dm
	}
	m := c18New(v.Type)
	if err := proto.Unmarshal(v.Bytes, m); err != nil {
		panic(err)
	}
	return m
}

func c18Wire(x interface{}) ([]byte, error) {
	switch m := x.(type) {
	case *dynamic.Message:
		return m.MarshalDeterministic()
	case proto.Message:
		return proto.MarshalOptions{Deterministic: true}.Marshal(m)
	}
	return nil, fmt.Errorf("not a message: %T", x)
}

// canon converts any representation to the generated type for comparison.
func c18Canon(typ string, x interface{}) (proto.Message, error) {
	b, err := c18Wire(x)
	if err != nil {
		return nil, err
	}
	m := c18New(typ)
	if err := proto.Unmarshal(b, m); err != nil {
		return nil, err
	}
	return m, nil
}

// flipBytes mutates, in place, every byte slice reachable from the message.
func flipBytes(x interface{}) int {
	n := 0
	flip := func(b []byte) {
		for i := range b {
			b[i] ^= 0xA5
		}
		n += len(b)
	}
	var walkV2 func(m protoreflect.Message)
	walkVal := func(fd protoreflect.FieldDescriptor, v protoreflect.Value) {
		switch fd.Kind() {
		case protoreflect.BytesKind:
			flip(v.Bytes())
		case protoreflect.MessageKind, protoreflect.GroupKind:
			walkV2(v.Message())
		}
	}
	walkV2 = func(m protoreflect.Message) {
		if !m.IsValid() {
			return
		}
		m.Range(func(fd protoreflect.FieldDescriptor, v protoreflect.Value) bool {
			switch {
			case fd.IsMap():
				v.Map().Range(func(k protoreflect.MapKey, mv protoreflect.Value) bool {
					walkVal(fd.MapValue(), mv)
					return true
				})
			case fd.IsList():
				l := v.List()
				for i := 0; i < l.Len(); i++ {
					walkVal(fd, l.Get(i))
				}
			default:
				walkVal(fd, v)
			}
			return true
		})
		flip(m.GetUnknown())
	}
	var walkDyn func(v interface{})
	walkDyn = func(v interface{}) {
		switch t := v.(type) {
		case []byte:
			flip(t)
		case []interface{}:
			for _, e := range t {
				walkDyn(e)
			}
		case map[interface{}]interface{}:
			for _, e := range t {
				walkDyn(e)
			}
		case *dynamic.Message:
			if t == nil {
				return
			}
			for _, fd := range t.GetKnownFields() {
				if t.HasField(fd) || fd.IsRepeated() {
					walkDyn(t.GetField(fd))
				}
			}
			for _, tag := range t.GetUnknownFields() {
				for _, u := range t.GetUnknownField(tag) {
					flip(u.Contents)
				}
			}
		case proto.Message:
			if t != nil {
				walkV2(t.ProtoReflect())
			}
		}
	}
	walkDyn(x)
	return n
}

func c18Adapter(name string) inprocgrpc.Cloner {
	switch name {
	case "proto":
		return inprocgrpc.ProtoCloner{}
	case "codec":
		return inprocgrpc.CodecCloner(encoding.GetCodec(grpcproto.Name))
	case "clonefunc":
		return inprocgrpc.CloneFunc(inprocgrpc.ProtoCloner{}.Clone)
	default:
		return inprocgrpc.CopyFunc(inprocgrpc.ProtoCloner{}.Copy)
	}
}

type c18NonProto struct {
	X int
	B []byte
}

func propC18(c c18Case) *Outcome {
	if c.Odd != "" {
		return c18Odd(c)
	}
	if c.Conc > 0 {
		return c18Concurrent(c)
	}
	o := &Outcome{}
	o.class("adapter=%s/op=%s", c.Adapter, c.Op)
	o.class("src=%s/dyn=%v", c.Src.Type, c.Src.Dyn)
	if c.Op == "copy" {
		o.class("dst=%s", c.Dst)
	}
	cl := c18Adapter(c.Adapter)
	if c.Poison {
		o.class("after-failed-copies")
		func() {
			defer func() { recover() }()
			bad := dynamic.NewMessage(c18Desc("trailer"))
			bad.TrySetFieldByName("code", int32(77))
			bad.TrySetFieldByName("message", "poison-\xff\xfe")
			cl.Copy(new(httpgrpc.HttpTrailer), bad)
			cl.Copy(dynamic.NewMessage(c18Desc("msg")), bad)
			cl.Copy(&c18NonProto{}, bad)
			cl.Clone(bad) // the same adapter instance has cloned a dynamic message of another type before
		}()
		// whatever those failures used internally (scratch buffers, pooled objects) is clean again: the very next
		// operations, on the same goroutine, are ordinary ones
		for i := 0; i < 3; i++ {
			good := c18Val{Type: "msg", Dyn: true, Bytes: mustMarshal(&pb.Message{Count: int32(i + 1), Payload: []byte("after-a-failed-copy")})}.build()
			want, _ := c18Wire(good)
			var got interface{}
			var err error
			func() {
				defer func() {
					if r := recover(); r != nil {
						err = fmt.Errorf("panic: %v", r)
					}
				}()
				got, err = cl.Clone(good)
			}()
			if err != nil {
				return o.failf("%s: right after copies that (rightly) failed, Clone of an ordinary dynamic message failed: %v", c.Adapter, err)
			}
			if b, _ := c18Wire(got); string(b) != string(want) {
				return o.failf("%s: right after copies that (rightly) failed, Clone of an ordinary dynamic message returned other content", c.Adapter)
			}
		}
	}
	src := c.Src.build()
	srcBefore, _ := c18Wire(src)
	srcCanon, _ := c18Canon(c.Src.Type, src)
	o.NonTrivial = c.Op == "copy" && c.Dst != "empty" || c.Src.Dyn
	var result interface{}
	var err error
	var dst interface{}
	wantRefusal := false
	crossRepr := false
	panicked := ""
	func() {
		defer func() {
			if p := recover(); p != nil {
				panicked = fmt.Sprintf("%v\n%s", p, debug.Stack())
			}
		}()
		if c.Op == "clone" {
			result, err = cl.Clone(src)
			return
		}
		switch c.Dst {
		case "empty":
			dst = c18Val{Type: c.Src.Type, Dyn: c.Src.Dyn}.build()
		case "filled":
			dst = c18Val{Type: c.Src.Type, Dyn: c.Src.Dyn, Bytes: c.DstFill.Bytes}.build()
		case "other-repr":
			dst, crossRepr = c18Val{Type: c.Src.Type, Dyn: !c.Src.Dyn}.build(), true
		case "other-repr-filled":
			dst, crossRepr = c18Val{Type: c.Src.Type, Dyn: !c.Src.Dyn, Bytes: c.DstFill.Bytes}.build(), true
		case "other-type":
			dst, wantRefusal = c.DstFill.build(), true
		case "non-proto":
			dst, wantRefusal = &c18NonProto{X: 1, B: []byte{1, 2, 3}}, true
		}
		err = cl.Copy(dst, src)
		result = dst
	}()
	o.Observed = map[string]interface{}{"err": errStr(err), "panic": panicked}
	if panicked != "" {
		return o.failf("%s.%s(%s dyn=%v, dst=%s) panicked: %s", c.Adapter, c.Op, c.Src.Type, c.Src.Dyn, c.Dst, panicked)
	}
	if after, _ := c18Wire(src); string(after) != string(srcBefore) {
		return o.failf("%s.%s changed the source message", c.Adapter, c.Op)
	}
	if wantRefusal {
		if err == nil {
			return o.failf("%s.Copy into a %s destination (%T) from %T returned nil instead of refusing", c.Adapter, c.Dst, dst, src)
		}
		// no aliasing even on refusal
		flipBytes(dst)
		if np, ok := dst.(*c18NonProto); ok {
			for i := range np.B {
				np.B[i] ^= 0xff
			}
		}
		if after, _ := c18Wire(src); string(after) != string(srcBefore) {
			return o.failf("%s.Copy refused a %s destination but left it sharing memory with the source", c.Adapter, c.Dst)
		}
		return o
	}
	if err != nil {
		if c.Adapter == "clonefunc" && crossRepr {
			o.class("clonefunc-cross-repr-refused")
			return o // documented as reflection assignment between identical Go types
		}
		return o.failf("%s.%s(%T -> %T) failed: %v", c.Adapter, c.Op, src, dst, err)
	}
	got, cerr := c18Canon(c.Src.Type, result)
	if cerr != nil {
		return o.failf("%s.%s: result %T is not a usable message: %v", c.Adapter, c.Op, result, cerr)
	}
	if !proto.Equal(got, srcCanon) {
		return o.failf("%s.%s(%s dyn=%v, dst=%s): copy %v differs from source %v", c.Adapter, c.Op, c.Src.Type, c.Src.Dyn, c.Dst, got, srcCanon)
	}
	if c.Op == "clone" {
		// the clone has the source's representation
		if _, isDyn := result.(*dynamic.Message); isDyn != c.Src.Dyn {
			return o.failf("%s.Clone(%T) returned %T", c.Adapter, src, result)
		}
		if result == src {
			return o.failf("%s.Clone returned its argument", c.Adapter)
		}
	}
	// independence, both directions
	resBefore, _ := c18Wire(result)
	flipBytes(result)
	if after, _ := c18Wire(src); string(after) != string(srcBefore) {
		return o.failf("%s.%s(%s dyn=%v, dst=%s): mutating the copy changed the source (shared memory)", c.Adapter, c.Op, c.Src.Type, c.Src.Dyn, c.Dst)
	}
	flipBytes(result) // restore
	flipBytes(src)
	if after, _ := c18Wire(result); string(after) != string(resBefore) {
		return o.failf("%s.%s(%s dyn=%v, dst=%s): mutating the source changed the copy (shared memory)", c.Adapter, c.Op, c.Src.Type, c.Src.Dyn, c.Dst)
	}
	return o
}

func genC18Val(t *rapid.T, label string, typ string) c18Val {
	v := c18Val{Type: typ}
	var m proto.Message
	switch typ {
	case "msg":
		m = genMsg(t, label, 2000).Build()
	case "msg2":
		m = &binlogpb.Message{Length: rapid.Uint32Range(0, 9).Draw(t, label+"-len"), Data: rapid.SliceOfN(rapid.Byte(), 0, 12).Draw(t, label+"-data")}
	case "trailer":
		tr := &httpgrpc.HttpTrailer{Code: rapid.Int32().Draw(t, label+"-code"), Message: rapid.StringMatching(`[ -~é]{0,12}`).Draw(t, label+"-msg")}
		nk := rapid.IntRange(0, 3).Draw(t, label+"-nk")
		for i := 0; i < nk; i++ {
			if tr.Metadata == nil {
				tr.Metadata = map[string]*httpgrpc.TrailerValues{}
			}
			tr.Metadata[rapid.StringMatching(`[a-z]{1,4}`).Draw(t, label+"-k")] = &httpgrpc.TrailerValues{Values: rapid.SliceOfN(rapid.StringMatching(`[a-z]{0,5}`), 0, 3).Draw(t, label+"-vs")}
		}
		nd := rapid.IntRange(0, 2).Draw(t, label+"-nd")
		for i := 0; i < nd; i++ {
			tr.Details = append(tr.Details, genAny(t, label+"-det").build())
		}
		m = tr
	case "struct":
		fields := map[string]interface{}{}
		nk := rapid.IntRange(0, 4).Draw(t, label+"-nk")
		for i := 0; i < nk; i++ {
			k := rapid.StringMatching(`[a-z]{1,4}`).Draw(t, label+"-k")
			switch rapid.IntRange(0, 4).Draw(t, label+"-vk") {
			case 0:
				fields[k] = rapid.Float64Range(-1e9, 1e9).Draw(t, label+"-num")
			case 1:
				fields[k] = rapid.StringMatching(`[ -~]{0,8}`).Draw(t, label+"-str")
			case 2:
				fields[k] = rapid.Bool().Draw(t, label+"-b")
			case 3:
				fields[k] = []interface{}{1.5, "x", nil, map[string]interface{}{"n": 2.0}}
			default:
				fields[k] = nil
			}
		}
		s, err := structpb.NewStruct(fields)
		if err != nil {
			panic(err)
		}
		m = s
	case "any":
		m = genAny(t, label+"-any").build()
	case "timestamp":
		m = timestamppb.New(time.Unix(rapid.Int64Range(-1e10, 1e10).Draw(t, label+"-sec"), int64(rapid.IntRange(0, 999999999).Draw(t, label+"-ns"))))
	case "empty":
		m = &emptypb.Empty{}
	case "stringvalue":
		m = wrapperspb.String(rapid.StringMatching(`[ -~é]{0,10}`).Draw(t, label+"-sv"))
	default:
		m = wrapperspb.Bytes(genSmallBytes.Draw(t, label+"-bv"))
	}
	v.Bytes = mustMarshal(m)
	return v
}

var c18Types = []string{"msg", "msg", "msg", "trailer", "trailer", "struct", "any", "timestamp", "empty", "stringvalue", "bytesvalue", "msg2"}

func genC18(t *rapid.T) c18Case {
	c := c18Case{Adapter: rapid.SampledFrom([]string{"proto", "codec", "clonefunc", "copyfunc"}).Draw(t, "adapter"), Op: rapid.SampledFrom([]string{"clone", "copy", "copy"}).Draw(t, "op")}
	c.Poison = rapid.IntRange(0, 4).Draw(t, "poison") == 0
	if rapid.IntRange(0, 29).Draw(t, "odd") == 0 {
		c := c18Case{Adapter: rapid.SampledFrom([]string{"proto", "codec", "clonefunc", "copyfunc"}).Draw(t, "oadapter"), Odd: rapid.SampledFrom([]string{"bad-source", "other-desc"}).Draw(t, "oddkind")}
		c.Src = genC18Val(t, "osrc", "msg")
		return c
	}
	if rapid.IntRange(0, 29).Draw(t, "concurrent") == 0 {
		return c18Case{Adapter: rapid.SampledFrom([]string{"proto", "codec", "clonefunc", "copyfunc"}).Draw(t, "cadapter"), Conc: rapid.IntRange(2, 8).Draw(t, "conc"), ConcRounds: 400,
			Src: c18Val{Type: "msg", Dyn: rapid.Bool().Draw(t, "cdyn")}}
	}
	typ := rapid.SampledFrom(c18Types).Draw(t, "type")
	c.Src = genC18Val(t, "src", typ)
	dynOK := typ == "msg" || typ == "trailer" || typ == "msg2"
	if dynOK {
		c.Src.Dyn = rapid.Bool().Draw(t, "dyn")
	}
	if c.Op == "copy" {
		dsts := []string{"empty", "filled", "filled", "other-type", "non-proto"}
		if dynOK {
			dsts = append(dsts, "other-repr", "other-repr-filled", "other-repr-filled")
		}
		c.Dst = rapid.SampledFrom(dsts).Draw(t, "dst")
		switch c.Dst {
		case "filled", "other-repr-filled":
			c.DstFill = genC18Val(t, "fill", typ)
		case "other-type":
			other := rapid.SampledFrom(c18Types).Filter(func(s string) bool { return s != typ }).Draw(t, "othertype")
			if twin := map[string]string{"msg": "msg2", "msg2": "msg"}[typ]; twin != "" && rapid.Bool().Draw(t, "namesake") {
				other = twin // a different type with the same simple name
			}
			c.DstFill = genC18Val(t, "fill", other)
			if other == "msg" || other == "trailer" || other == "msg2" {
				c.DstFill.Dyn = rapid.Bool().Draw(t, "otherdyn")
			}
		}
	}
	return c
}

func init() { registerReplay("C18", propC18) }

const c18Rule = "rapid-generated: adapter (ProtoCloner, CodecCloner(proto), CloneFunc(ProtoCloner.Clone), CopyFunc(ProtoCloner.Copy)) x op (Clone, Copy) x source of 8 message types (test Message incl. maps/Any/unknown fields, HttpTrailer, Struct, Any, Timestamp, Empty, StringValue, BytesValue) (and grpc.binarylog.v1.Message, a namesake of the test Message from another package) in generated or dynamic representation x destination (empty, pre-populated, other representation empty/pre-populated, different message type, pointer to a non-proto struct); " +
	"oracle: result equals the source (compared through the generated type), source bytes unchanged, flipping every reachable byte of the copy leaves the source intact and vice versa, destination holds exactly the source content, different type / non-proto => non-nil error and no shared memory; generated<->dynamic must succeed except for CloneFunc (an error is accepted there, a silent wrong copy is not); never a panic; " +
	"a concurrent mode (2..8 goroutines share one adapter instance, each cloning and copying its own message 400 times: every result is the caller's own message); " +
	"also generated since the seeded rounds: the adapter has just been through copies that fail (invalid UTF-8 in a dynamic source, non-message destination) - a failure leaves nothing behind; " +
	"non-trivial = pre-populated / cross-representation / refusal destination, or a dynamic source; distinct by case hash"

// c18Decodes: do the bytes decode as the type in both representations (what build needs)?
func c18Decodes(v c18Val) bool {
	if proto.Unmarshal(v.Bytes, c18New(v.Type)) != nil {
		return false
	}
	if v.Type == "msg" || v.Type == "trailer" {
		return dynamic.NewMessage(c18Desc(v.Type)).Unmarshal(v.Bytes) == nil
	}
	return true
}

// c18HasUnknownDeep: does the generated decoding keep any unknown field, at any depth?
func c18HasUnknownDeep(m protoreflect.Message) bool {
	if len(m.GetUnknown()) > 0 {
		return true
	}
	found := false
	m.Range(func(fd protoreflect.FieldDescriptor, v protoreflect.Value) bool {
		switch {
		case fd.IsMap():
			if fd.MapValue().Message() != nil {
				v.Map().Range(func(_ protoreflect.MapKey, mv protoreflect.Value) bool {
					found = found || c18HasUnknownDeep(mv.Message())
					return !found
				})
			}
		case fd.IsList():
			if fd.Message() != nil {
				for i := 0; i < v.List().Len() && !found; i++ {
					found = c18HasUnknownDeep(v.List().Get(i).Message())
				}
			}
		case fd.Message() != nil:
			found = c18HasUnknownDeep(v.Message())
		}
		return !found
	})
	return found
}

// FuzzCloner: coverage-guided search over message contents given as wire bytes (unknown fields,
// non-canonical encodings, repeated scalars, nested garbage) for every adapter, operation and destination.
func FuzzCloner(f *testing.F) {
	seeds := [][]byte{{}, {0x08, 0x01}, {0x0a, 0x03, 1, 2, 3}, {0x10, 0x05, 0x18, 0x07}, {0xa8, 0x1f, 0x01}, {0x08, 0x01, 0x08, 0x02}, {0x0a, 0x00}, {0x12, 0x02, 0x08, 0x01}}
	for i, b := range seeds {
		f.Add(uint16(i*37), b, seeds[(i+3)%len(seeds)])
		f.Add(uint16(i*101+7), b, []byte{})
	}
	adapters := []string{"proto", "codec", "clonefunc", "copyfunc"}
	dsts := []string{"empty", "filled", "other-repr", "other-repr-filled", "other-type", "non-proto"}
	f.Fuzz(func(t *testing.T, sel uint16, src, fill []byte) {
		c := c18Case{Adapter: adapters[int(sel)%4], Op: []string{"clone", "copy"}[int(sel>>2)%2]}
		typ := c18Types[int(sel>>3)%len(c18Types)]
		dynOK := typ == "msg" || typ == "trailer"
		c.Src = c18Val{Type: typ, Dyn: dynOK && (sel>>7)&1 == 1, Bytes: src}
		if !c18Decodes(c.Src) {
			t.Skip()
		}
		if c.Op == "copy" {
			c.Dst = dsts[int(sel>>8)%len(dsts)]
			if !dynOK && strings.HasPrefix(c.Dst, "other-repr") {
				c.Dst = "filled"
			}
			switch c.Dst {
			case "filled", "other-repr-filled":
				c.DstFill = c18Val{Type: typ, Bytes: fill}
			case "other-type":
				other := c18Types[(int(sel>>3)+1+int(sel>>11)%3)%len(c18Types)]
				if other == typ {
					other = "empty"
					if typ == "empty" {
						other = "msg"
					}
				}
				c.DstFill = c18Val{Type: other, Bytes: fill, Dyn: (other == "msg" || other == "trailer") && (sel>>15)&1 == 1}
			}
			if c.DstFill.Type != "" && !c18Decodes(c.DstFill) {
				t.Skip()
			}
		}
		if c.Src.Dyn || strings.HasPrefix(c.Dst, "other-repr") || c.DstFill.Dyn {
			// a field that arrives with another wire type than declared is kept as unknown by generated
			// messages and reinterpreted by dynamic.Message; with both representations in play only
			// contents that both read alike are in the domain
			for _, v := range []c18Val{c.Src, c.DstFill} {
				if v.Type != "" {
					g := c18New(v.Type)
					proto.Unmarshal(v.Bytes, g)
					if c18HasUnknownDeep(g.ProtoReflect()) {
						t.Skip()
					}
				}
			}
		}
		if o := propC18(c); o.Fail != "" {
			t.Fatalf("C18: %s", o.Fail)
		}
	})
}

func TestC18(t *testing.T) {
	runProp(t, "C18", c18Rule, genC18, propC18)
}
