package harness

import (
	"pgregory.net/rapid"
	"strings"
)

type scriptGenOpts struct {
	MaxMsg      int  // payload cap
	Cardinality bool // allow single-response handlers to send 0 or >1 responses
	MDKeys      int  // max metadata keys per map
	FewOps      bool
	NoEarly     bool // handler always drains the request stream
	OnlyKinds   []string
	PlainStatus bool // restrict final status to plain ones (C01/C03 do not care about its content)
}

func genPlainErr(t *rapid.T, label string) ErrSpec {
	if rapid.IntRange(0, 2).Draw(t, label+"-ok") > 0 {
		return ErrSpec{Kind: "nil"}
	}
	return ErrSpec{Kind: "status", Code: rapid.Uint32Range(1, 16).Draw(t, label+"-code"), Msg: []byte("failed")}
}

func genScript(t *rapid.T, g scriptGenOpts) Script {
	kinds := allKinds
	if len(g.OnlyKinds) > 0 {
		kinds = g.OnlyKinds
	}
	s := Script{Kind: rapid.SampledFrom(kinds).Draw(t, "kind")}
	if g.MaxMsg == 0 {
		g.MaxMsg = 70000
	}
	s.ReqMD = genMD(t, "reqmd", g.MDKeys)
	if rapid.IntRange(0, 2).Draw(t, "reqmd-more") == 0 {
		s.ReqMDMore = genMD(t, "reqmd2", g.MDKeys)
	}
	s.Deadline = rapid.IntRange(0, 3).Draw(t, "deadline") == 0
	s.CtxAPI = rapid.IntRange(0, 2).Draw(t, "ctxapi") == 0
	s.OptReuse = rapid.IntRange(0, 3).Draw(t, "optreuse") == 0
	s.RegAllBidi = rapid.IntRange(0, 5).Draw(t, "regallbidi") == 0
	s.OneRecv = rapid.IntRange(0, 2).Draw(t, "onerecv") == 0
	s.PreSendHdr = rapid.IntRange(0, 4).Draw(t, "presendhdr") == 0
	s.SrvInt = rapid.IntRange(0, 3).Draw(t, "srvint") == 0
	s.SlowFinish = !s.Chunked && rapid.IntRange(0, 3).Draw(t, "slowfinish") == 0
	s.Wrap = rapid.SampledFrom([]string{"", "", "", "", "u", "s", "us"}).Draw(t, "wrap")
	s.Chunked = rapid.IntRange(0, 4).Draw(t, "chunked") == 0
	s.RespWithErr = rapid.IntRange(0, 2).Draw(t, "respwitherr") == 0
	if rapid.IntRange(0, 7).Draw(t, "spoof") == 0 {
		s.Spoof = 1 + rapid.SampledFrom([]int{0, 0, 5, 13, 16}).Draw(t, "spoofcode")
		s.SpoofCase = rapid.IntRange(0, 2).Draw(t, "spoofcase")
	}
	nreq := 1
	if clientStreaming(s.Kind) {
		nreq = rapid.IntRange(0, 6).Draw(t, "nreq")
	}
	for i := 0; i < nreq; i++ {
		s.Reqs = append(s.Reqs, genMsg(t, "req", g.MaxMsg))
	}
	nresp := rapid.IntRange(1, 5).Draw(t, "nresp-pool")
	for i := 0; i < nresp; i++ {
		s.Resps = append(s.Resps, genMsg(t, "resp", g.MaxMsg))
	}
	s.RecvN = -1
	if clientStreaming(s.Kind) && !g.NoEarly && rapid.IntRange(0, 4).Draw(t, "early") == 0 {
		s.RecvN = rapid.IntRange(0, nreq).Draw(t, "recvn")
	}
	if g.PlainStatus {
		s.Final = genPlainErr(t, "final")
	} else {
		s.Final = genErr(t, "final")
	}
	drained := s.RecvN == -1
	maxOps := 8
	if g.FewOps {
		maxOps = 4
	}
	nops := rapid.IntRange(0, maxOps).Draw(t, "nops")
	kindsOfOp := []string{"sethdr", "sendhdr", "settlr"}
	if s.Kind != kUnary && drained {
		kindsOfOp = append(kindsOfOp, "send", "send")
	}
	nsend := 0
	for i := 0; i < nops; i++ {
		op := HOp{Op: rapid.SampledFrom(kindsOfOp).Draw(t, "op")}
		if !drained && op.Op == "sendhdr" {
			op.Op = "sethdr"
		}
		switch op.Op {
		case "send":
			if s.Kind == kClientStream && !g.Cardinality && nsend >= 1 {
				op.Op = "settlr"
				op.MD = genMD(t, "opmd", g.MDKeys)
				break
			}
			op.Msg = rapid.IntRange(0, nresp-1).Draw(t, "opmsg")
			nsend++
		default:
			op.MD = genMD(t, "opmd", g.MDKeys)
			if g.MDKeys > 0 && len(s.HOps) > 0 && rapid.IntRange(0, 3).Draw(t, "samekey") == 0 {
				// a key used earlier, possibly on the other side (the same key as header and as trailer)
				prev := s.HOps[rapid.IntRange(0, len(s.HOps)-1).Draw(t, "samekeyfrom")]
				if len(prev.MD) > 0 {
					k := prev.MD[0].K
					op.MD = append(op.MD, MDPair{K: k, V: genMDValue(t, "samekeyval", strings.HasSuffix(k, "-bin"))})
				}
			}
		}
		s.HOps = append(s.HOps, op)
	}
	if s.Kind == kClientStream && !g.Cardinality && drained && nsend == 0 && s.Final.isNil() {
		// a well-behaved client-streaming handler sends exactly one response on success
		s.HOps = append(s.HOps, HOp{Op: "send", Msg: rapid.IntRange(0, nresp-1).Draw(t, "opmsg")})
	}
	if s.Kind == kClientStream && !drained && s.Final.isNil() {
		// without draining no response may be sent (see DESIGN 2.8 scripts); make it an error outcome
		s.Final = ErrSpec{Kind: "status", Code: 10, Msg: []byte("early")}
	}
	s.UnaryResp = rapid.IntRange(0, nresp-1).Draw(t, "unaryresp")
	s.HeaderAt = rapid.SampledFrom([]int{-1, 0, 0, 1, 2, 99}).Draw(t, "headerat")
	s.NHdrOpts = rapid.IntRange(0, 3).Draw(t, "nhdropts")
	s.NTlrOpts = rapid.IntRange(0, 3).Draw(t, "ntlropts")
	return s
}
