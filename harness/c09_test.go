package harness

// C09 — deadlines cross the HTTP transport without being extended or spuriously expired.

import (
	"bytes"
	"context"
	"fmt"
	"io"
	"math"
	"net/http"
	"net/http/httptest"
	"regexp"
	"runtime"
	"strconv"
	"sync"
	"testing"
	"time"

	"google.golang.org/grpc"
	"google.golang.org/grpc/metadata"
	"pgregory.net/rapid"

	pb "github.com/fullstorydev/grpchan/grpchantesting"
	"github.com/fullstorydev/grpchan/httpgrpc"
)

type c09Case struct {
	Mode     string // client | server | e2e
	Stream   bool   // through NewStream / a streaming method instead of unary
	NoDL     bool   `json:",omitempty"` // client/e2e: the caller has no deadline
	RemainNs int64  `json:",omitempty"` // client/e2e: remaining duration of the caller's deadline
	Header   string `json:",omitempty"` // server: GRPC-Timeout value
	HasHdr   bool   `json:",omitempty"` // server: header present at all
	Carrier  string `json:",omitempty"`
	StaleMD  string `json:",omitempty"` // client/e2e: the caller's outgoing metadata already carries a grpc-timeout key (e.g. forwarded by a gateway)
	GapUs    int    `json:",omitempty"` // client: a second call is made this much later under the same context
	CredUs   int    `json:",omitempty"` // e2e: the call carries per-RPC credentials whose callback takes this long (token refresh); that is not transit time
	// Overlap (mode "overlap"): N calls with deadlines of their own are started back to back on one channel (streams:
	// NewStream returns before the request is on its way; unary calls from goroutines of their own); the transport
	// looks at each request's header only once all of them have been started. Each carries its own deadline.
	OverlapNs []int64 `json:",omitempty"`
	ParentNs  int64   `json:",omitempty"` // server: the HTTP request context has its own deadline this far ahead (e.g. http.TimeoutHandler)
}

var reTimeout = regexp.MustCompile(`^[0-9]+[HMSmun]$`)

var units = map[byte]time.Duration{'H': time.Hour, 'M': time.Minute, 'S': time.Second, 'm': time.Millisecond, 'u': time.Microsecond, 'n': time.Nanosecond}

// satDuration = value*unit saturating at MaxInt64 ns; ok=false if the digits exceed int64.
func satDuration(h string) (d time.Duration, ok bool) {
	v, err := strconv.ParseUint(h[:len(h)-1], 10, 64)
	if err != nil || v > math.MaxInt64 {
		return 0, false
	}
	u := units[h[len(h)-1]]
	if v > uint64(math.MaxInt64)/uint64(u) {
		return math.MaxInt64, true
	}
	return time.Duration(v) * u, true
}

func propC09(c c09Case) *Outcome {
	o := &Outcome{}
	o.class("mode=%s/stream=%v", c.Mode, c.Stream)
	switch c.Mode {
	case "client":
		return c09Client(c, o)
	case "server":
		return c09Server(c, o)
	case "overlap":
		return c09Overlap(c, o)
	}
	return c09E2E(c, o)
}

func c09Overlap(c c09Case, o *Outcome) *Outcome {
	o.NonTrivial = true
	o.class("overlap/calls=%d", len(c.OverlapNs))
	n := len(c.OverlapNs)
	var mu sync.Mutex
	seen := make([][]string, n)
	at := make([]time.Time, n)
	allStarted := make(chan struct{})
	ch := &httpgrpc.Channel{BaseURL: baseURL, Transport: rtFunc(func(r *http.Request) (*http.Response, error) {
		t1 := time.Now()
		// what matters is what the request says when it is written, which is after RoundTrip was entered
		select {
		case <-allStarted:
		case <-time.After(200 * time.Millisecond):
		}
		k, _ := strconv.Atoi(r.Header.Get("Zz-Call"))
		mu.Lock()
		if k >= 0 && k < n {
			seen[k] = append([]string{}, r.Header.Values("Grpc-Timeout")...)
			for i := range seen[k] {
				seen[k][i] = string(append([]byte{}, seen[k][i]...)) // the bytes as they are now
			}
			at[k] = t1
		}
		mu.Unlock()
		go io.Copy(io.Discard, r.Body)
		body := []byte(nil)
		ct := httpgrpc.UnaryRpcContentType_V1
		if c.Stream {
			body = encodeStream(nil, &httpgrpc.HttpTrailer{Message: "OK"})
			ct = httpgrpc.StreamRpcContentType_V1
		}
		return &http.Response{StatusCode: 200, Status: "200 OK", Proto: "HTTP/1.1", ProtoMajor: 1, ProtoMinor: 1, Header: http.Header{"Content-Type": {ct}},
			Body: io.NopCloser(bytes.NewReader(body)), Request: r}, nil
	})}
	t0 := make([]time.Time, n)
	D := make([]time.Time, n)
	var wg sync.WaitGroup
	var cancels []context.CancelFunc
	for k := 0; k < n; k++ {
		t0[k] = time.Now()
		D[k] = t0[k].Add(time.Duration(c.OverlapNs[k]))
		ctx, cancel := context.WithDeadline(metadata.AppendToOutgoingContext(context.Background(), "zz-call", strconv.Itoa(k)), D[k])
		cancels = append(cancels, cancel)
		if c.Stream {
			cs, err := ch.NewStream(ctx, streamDescOf(kBidi), mBidi)
			if err == nil {
				wg.Add(1)
				go func() { defer wg.Done(); cs.Header() }()
			}
		} else {
			wg.Add(1)
			started := make(chan struct{})
			go func() {
				defer wg.Done()
				close(started)
				ch.Invoke(ctx, mUnary, &pb.Message{}, new(pb.Message))
			}()
			<-started
			runtime.Gosched()
		}
	}
	close(allStarted)
	stall := guard("overlapping calls", wg.Wait)
	for _, cancel := range cancels {
		cancel()
	}
	if stall != "" {
		return o.failf("%s", stall)
	}
	mu.Lock()
	defer mu.Unlock()
	o.Observed = map[string]interface{}{"headers": seen, "remaining_ns": c.OverlapNs}
	for k := 0; k < n; k++ {
		if at[k].IsZero() {
			return o.failf("overlap: call %d of %d never reached the transport", k+1, n)
		}
		if len(seen[k]) != 1 {
			return o.failf("overlap: call %d (deadline in %v): GRPC-Timeout headers %q", k+1, time.Duration(c.OverlapNs[k]), seen[k])
		}
		h := seen[k][0]
		if len(h) < 2 || h[len(h)-1] != 'm' {
			return o.failf("overlap: call %d of %d started back to back (deadline in %v): GRPC-Timeout %q is not of the form <millis>m (headers of all calls: %q)", k+1, n, time.Duration(c.OverlapNs[k]), h, seen)
		}
		v, err := strconv.ParseInt(h[:len(h)-1], 10, 64)
		if err != nil {
			return o.failf("overlap: call %d: GRPC-Timeout %q: %v", k+1, h, err)
		}
		lo, hi := int64(D[k].Sub(at[k])/time.Millisecond), int64(D[k].Sub(t0[k])/time.Millisecond)
		if lo < 1 {
			lo = 1
		}
		if hi < 1 {
			hi = 1
		}
		if v < lo || v > hi {
			return o.failf("overlap: call %d of %d started back to back, %v before its deadline: GRPC-Timeout %q outside [%d, %d] ms (headers of all calls: %q)", k+1, n, D[k].Sub(t0[k]), h, lo, hi, seen)
		}
	}
	return o
}

func c09Client(c c09Case, o *Outcome) *Outcome {
	var t1 time.Time
	var hdr []string
	var mu sync.Mutex
	ch := &httpgrpc.Channel{BaseURL: baseURL, Transport: rtFunc(func(r *http.Request) (*http.Response, error) {
		mu.Lock()
		t1 = time.Now()
		hdr = r.Header.Values("Grpc-Timeout")
		mu.Unlock()
		go io.Copy(io.Discard, r.Body)
		body := []byte(nil)
		ct := httpgrpc.UnaryRpcContentType_V1
		if c.Stream {
			body = encodeStream(nil, &httpgrpc.HttpTrailer{Message: "OK"})
			ct = httpgrpc.StreamRpcContentType_V1
		}
		return &http.Response{StatusCode: 200, Status: "200 OK", Proto: "HTTP/1.1", ProtoMajor: 1, ProtoMinor: 1, Header: http.Header{"Content-Type": {ct}},
			Body: io.NopCloser(bytes.NewReader(body)), Request: r}, nil
	})}
	ctx := context.Background()
	var D time.Time
	t0 := time.Now()
	if !c.NoDL {
		D = t0.Add(time.Duration(c.RemainNs))
		var cancel context.CancelFunc
		ctx, cancel = context.WithDeadline(ctx, D)
		defer cancel()
	}
	o.NonTrivial = c.NoDL || c.RemainNs < int64(time.Millisecond) || c.RemainNs > int64(time.Hour) || c.StaleMD != ""
	if c.StaleMD != "" {
		ctx = metadata.NewOutgoingContext(ctx, metadata.Pairs("grpc-timeout", c.StaleMD, "zz-other", "1"))
		o.class("stale-grpc-timeout-in-metadata")
	}
	// one call, then (Gap) a second one later under the very same context: the timeout sent is the time left
	// when each call is made
	calls := 1
	if c.GapUs > 0 && !c.NoDL {
		calls = 2
		o.class("client/second-call-under-the-same-deadline")
	}
	for k := 0; k < calls; k++ {
		if k > 0 {
			time.Sleep(time.Duration(c.GapUs) * time.Microsecond)
			mu.Lock()
			t1, hdr = time.Time{}, nil
			mu.Unlock()
			t0 = time.Now()
		}
		if c.Stream {
			cctx, cancel := context.WithCancel(ctx)
			cs, err := ch.NewStream(cctx, streamDescOf(kServerStream), mServerStream)
			if err == nil {
				cs.Header() // returns once the round trip was made
			}
			cancel()
		} else {
			ch.Invoke(ctx, mUnary, &pb.Message{}, new(pb.Message))
		}
		if why := c09ClientJudge(c, o, &mu, &t1, &hdr, t0, D, k); why != "" {
			return o.failf("%s", why)
		}
	}
	return o
}

func c09ClientJudge(c c09Case, o *Outcome, mu *sync.Mutex, pt1 *time.Time, phdr *[]string, t0, D time.Time, k int) string {
	mu.Lock()
	defer mu.Unlock()
	t1, hdr := *pt1, *phdr
	o.Observed = map[string]interface{}{"header": hdr, "reached_transport": !t1.IsZero(), "call": k + 1}
	if t1.IsZero() {
		// the call may legitimately fail before the request is issued when the deadline has passed
		if c.NoDL || D.Sub(t0) > 50*time.Millisecond {
			return fmt.Sprintf("call %d: request never reached the transport", k+1)
		}
		return ""
	}
	if c.NoDL {
		if len(hdr) != 0 && c.StaleMD == "" {
			return fmt.Sprintf("caller has no deadline but GRPC-Timeout %q was sent", hdr)
		}
		return ""
	}
	if len(hdr) != 1 {
		return fmt.Sprintf("caller deadline in %v: GRPC-Timeout headers %q", time.Duration(c.RemainNs), hdr)
	}
	h := hdr[0]
	if len(h) < 2 || h[len(h)-1] != 'm' {
		return fmt.Sprintf("GRPC-Timeout %q is not of the form <millis>m", h)
	}
	v, err := strconv.ParseInt(h[:len(h)-1], 10, 64)
	if err != nil {
		return fmt.Sprintf("GRPC-Timeout %q: %v", h, err)
	}
	lo := int64(D.Sub(t1) / time.Millisecond)
	hi := int64(D.Sub(t0) / time.Millisecond)
	if lo < 1 {
		lo = 1
	}
	if hi < 1 {
		hi = 1
	}
	if v < lo || v > hi {
		return fmt.Sprintf("call %d, %v before the deadline: GRPC-Timeout %q outside [%d, %d] ms", k+1, D.Sub(t0), h, lo, hi)
	}
	return ""
}

func c09Server(c c09Case, o *Outcome) *Outcome {
	wellFormed := c.HasHdr && reTimeout.MatchString(c.Header)
	o.class("well-formed=%v", wellFormed)
	if wellFormed {
		o.class("unit=%c/digits=%s", c.Header[len(c.Header)-1], bucket(len(c.Header)-1, 1, 6, 8, 12, 19, 40))
	}
	o.NonTrivial = !wellFormed || c.Header[len(c.Header)-1] != 'm' || len(c.Header) >= 8
	var mu sync.Mutex
	var entered time.Time
	var dl time.Time
	var hasDL bool
	runs := 0
	record := func(ctx context.Context) {
		mu.Lock()
		defer mu.Unlock()
		entered = time.Now()
		dl, hasDL = ctx.Deadline()
		runs++
	}
	svc := &Service{
		Unary: func(ctx context.Context, req *pb.Message) (*pb.Message, error) {
			record(ctx)
			return &pb.Message{}, nil
		},
		Stream: func(kind string, stream grpc.ServerStream) error {
			record(stream.Context())
			return nil
		},
	}
	var h http.Handler
	if c.Carrier == cHTTPMux {
		mux := http.NewServeMux()
		httpgrpc.HandleServices(mux.HandleFunc, "/", newHandlerMap(newServiceDesc(), svc), nil, nil)
		h = mux
	} else if c.Carrier == cHTTPPer {
		mux := http.NewServeMux()
		perMethodMux(mux, "/", newServiceDesc(), svc, nil, nil)
		h = mux
	} else {
		s := httpgrpc.NewServer()
		s.RegisterService(newServiceDesc(), svc)
		h = s
	}
	var req *http.Request
	if c.Stream {
		req = httptest.NewRequest("POST", "http://verif.test"+mBidi, bytes.NewReader(nil))
		req.Header.Set("Content-Type", httpgrpc.StreamRpcContentType_V1)
	} else {
		req = httptest.NewRequest("POST", "http://verif.test"+mUnary, bytes.NewReader(nil))
		req.Header.Set("Content-Type", httpgrpc.UnaryRpcContentType_V1)
	}
	if c.HasHdr {
		req.Header["Grpc-Timeout"] = []string{c.Header}
	}
	var parentDL time.Time
	if c.ParentNs > 0 {
		// the server puts its own limit on the request (http.TimeoutHandler, a deadline middleware...)
		parentDL = time.Now().Add(time.Duration(c.ParentNs))
		pctx, pcancel := context.WithDeadline(req.Context(), parentDL)
		defer pcancel()
		req = req.WithContext(pctx)
		o.class("server-side-request-deadline")
	}
	w := httptest.NewRecorder()
	before := time.Now()
	panicked := ""
	func() {
		defer func() {
			if r := recover(); r != nil {
				panicked = fmt.Sprint(r)
			}
		}()
		h.ServeHTTP(w, req)
	}()
	mu.Lock()
	defer mu.Unlock()
	o.Observed = map[string]interface{}{"status": w.Code, "handler_runs": runs, "has_deadline": hasDL, "deadline_in": dl.Sub(before).String(), "panic": panicked}
	if panicked != "" {
		return o.failf("GRPC-Timeout %q: server panicked: %s", c.Header, panicked)
	}
	if w.Code >= 500 {
		return o.failf("GRPC-Timeout %q: HTTP %d", c.Header, w.Code)
	}
	if !wellFormed {
		if !c.HasHdr && (runs != 1 || (hasDL && c.ParentNs == 0)) {
			return o.failf("no GRPC-Timeout header: handler runs=%d, deadline=%v", runs, hasDL)
		}
		return o
	}
	if c.ParentNs > 0 {
		// the handler's deadline is the earlier of the server's own and the caller's
		want, ok := satDuration(c.Header)
		if runs != 1 || !hasDL {
			return o.failf("GRPC-Timeout %q under a server-side request deadline: runs=%d deadline=%v", c.Header, runs, hasDL)
		}
		if dl.After(parentDL) {
			return o.failf("handler deadline is later than the server's own request deadline")
		}
		if ok && want < time.Duration(c.ParentNs)-time.Second {
			// the caller's is clearly the stricter one: it must be in force
			if dl.After(entered.Add(want)) {
				return o.failf("GRPC-Timeout %q (caller's deadline, stricter than the server's own %v): handler deadline %v after request start - the caller's timeout was dropped", c.Header, time.Duration(c.ParentNs), dl.Sub(before))
			}
		}
		return o
	}
	if runs != 1 {
		return o.failf("GRPC-Timeout %q: handler ran %d times (HTTP %d)", c.Header, runs, w.Code)
	}
	want, ok := satDuration(c.Header)
	if !ok {
		// more digits than int64 holds: the limit of saturation is "no deadline"; an early one is not
		if hasDL && dl.Sub(before) < 290*365*24*time.Hour {
			return o.failf("GRPC-Timeout %q: deadline only %v ahead", c.Header, dl.Sub(before))
		}
		return o
	}
	if !hasDL {
		if want >= 290*365*24*time.Hour {
			return o // saturated: no deadline at all is the same thing
		}
		return o.failf("GRPC-Timeout %q: handler context has no deadline", c.Header)
	}
	const eps = 50 * time.Microsecond
	lo := before.Add(want).Add(-eps)
	hi := entered.Add(want)
	if want == math.MaxInt64 {
		// saturated: anything at least ~290 years ahead is the duration asked for
		if dl.Sub(before) < 290*365*24*time.Hour {
			return o.failf("GRPC-Timeout %q (saturating): deadline only %v ahead - wrapped around?", c.Header, dl.Sub(before))
		}
		return o
	}
	if dl.Before(lo) || dl.After(hi) {
		return o.failf("GRPC-Timeout %q: deadline %v after request start, expected %v (+%v transit)", c.Header, dl.Sub(before), want, entered.Sub(before))
	}
	return o
}

type c09SlowCreds struct {
	d        time.Duration
	mu       sync.Mutex
	returned time.Time
}

func (c *c09SlowCreds) GetRequestMetadata(ctx context.Context, uri ...string) (map[string]string, error) {
	time.Sleep(c.d)
	c.mu.Lock()
	c.returned = time.Now()
	c.mu.Unlock()
	return map[string]string{"zz-token": "t"}, nil
}
func (c *c09SlowCreds) RequireTransportSecurity() bool { return false }

func c09E2E(c c09Case, o *Outcome) *Outcome {
	o.NonTrivial = true
	var mu sync.Mutex
	var entered time.Time
	var dl time.Time
	var hasDL bool
	record := func(ctx context.Context) {
		mu.Lock()
		defer mu.Unlock()
		entered = time.Now()
		dl, hasDL = ctx.Deadline()
	}
	svc := &Service{
		Unary: func(ctx context.Context, req *pb.Message) (*pb.Message, error) {
			record(ctx)
			return &pb.Message{}, nil
		},
		Stream: func(kind string, stream grpc.ServerStream) error {
			record(stream.Context())
			return nil
		},
	}
	car := newCarrier(c.Carrier, newServiceDesc(), svc, carrierOpts{})
	defer car.Close()
	ctx := context.Background()
	var D time.Time
	start := time.Now()
	if !c.NoDL {
		D = start.Add(time.Duration(c.RemainNs))
		var cancel context.CancelFunc
		ctx, cancel = context.WithDeadline(ctx, D)
		defer cancel()
	}
	var callErr error
	if c.StaleMD != "" {
		ctx = metadata.NewOutgoingContext(ctx, metadata.Pairs("grpc-timeout", c.StaleMD))
	}
	var copts []grpc.CallOption
	var creds *c09SlowCreds
	if c.CredUs > 0 {
		o.class("e2e/slow-credentials")
		creds = &c09SlowCreds{d: time.Duration(c.CredUs) * time.Microsecond}
		copts = append(copts, grpc.PerRPCCredentials(creds))
	}
	if c.Stream {
		cctx, cancel := context.WithCancel(ctx)
		cs, err := car.Conn.NewStream(cctx, streamDescOf(kBidi), mBidi, copts...)
		callErr = err
		if err == nil {
			cs.CloseSend()
			callErr = cs.RecvMsg(new(pb.Message))
		}
		cancel()
	} else {
		callErr = car.Conn.Invoke(ctx, mUnary, &pb.Message{}, new(pb.Message), copts...)
	}
	mu.Lock()
	defer mu.Unlock()
	if creds != nil {
		// transit starts when the library has what it needs to issue the request
		creds.mu.Lock()
		if !creds.returned.IsZero() {
			start = creds.returned
		}
		creds.mu.Unlock()
	}
	if entered.IsZero() {
		if c.NoDL || time.Duration(c.RemainNs) > 100*time.Millisecond {
			return o.failf("handler never ran (call result: %v)", callErr)
		}
		return o
	}
	o.Observed = map[string]interface{}{"has_deadline": hasDL, "handler_minus_caller": dl.Sub(D).String(), "transit": entered.Sub(start).String()}
	if c.NoDL {
		if hasDL && c.StaleMD == "" {
			return o.failf("caller has no deadline, handler has one %v ahead", dl.Sub(entered))
		}
		return o
	}
	if !hasDL {
		return o.failf("caller deadline in %v, handler context has none", time.Duration(c.RemainNs))
	}
	diff := dl.Sub(D)
	if diff > entered.Sub(start)+time.Millisecond+50*time.Microsecond {
		return o.failf("handler deadline is %v later than the caller's (transit %v)", diff, entered.Sub(start))
	}
	if diff < -(time.Millisecond + 50*time.Microsecond) {
		return o.failf("handler deadline is %v earlier than the caller's", -diff)
	}
	return o
}

func genTimeoutHeader(t *rapid.T) string {
	unit := rapid.SampledFrom([]string{"H", "M", "S", "m", "u", "n"}).Draw(t, "unit")
	switch rapid.IntRange(0, 11).Draw(t, "form") {
	case 0, 1, 2, 3:
		return rapid.StringMatching(`[0-9]{1,8}`).Draw(t, "digits") + unit
	case 4, 5:
		return rapid.StringMatching(`[1-9][0-9]{8,18}`).Draw(t, "digits") + unit
	case 6:
		return rapid.SampledFrom([]string{"99999999", "9223372036854775807", "9223372036854775808", "2562047", "2562048", "153722867", "153722868", "9223372036", "9223372037", "0", "00000000", "18446744073709551616", "99999999999999999999999999"}).Draw(t, "edge") + unit
	case 7:
		return rapid.StringMatching(`[0-9]{20,30}`).Draw(t, "digits") + unit
	case 8:
		return rapid.SampledFrom([]string{"-", "+", " ", ""}).Draw(t, "sign") + rapid.StringMatching(`[0-9]{1,6}`).Draw(t, "digits") + rapid.SampledFrom([]string{unit, "", "x", "ms", " " + unit, unit + " "}).Draw(t, "sfx")
	case 9:
		return rapid.SampledFrom([]string{"", unit, " ", "m5", "1.5S", "0x10m", "1e3m", "１２m", "5µ", "5µs", "∞", "NaNm", "1_000m"}).Draw(t, "odd")
	default:
		return rapid.StringMatching(`[ -~]{0,12}`).Draw(t, "junk")
	}
}

func genC09(t *rapid.T) c09Case {
	if rapid.IntRange(0, 19).Draw(t, "overlap") == 0 {
		c := c09Case{Mode: "overlap", Stream: rapid.IntRange(0, 2).Draw(t, "ostream") > 0}
		n := rapid.IntRange(2, 4).Draw(t, "ocalls")
		for i := 0; i < n; i++ {
			// whole seconds apart, some with the same number of digits in milliseconds and some not
			c.OverlapNs = append(c.OverlapNs, int64(rapid.SampledFrom([]int{2, 5, 20, 30, 50, 70, 300, 900, 4000}).Draw(t, "osecs"))*int64(time.Second))
		}
		return c
	}
	switch rapid.IntRange(0, 9).Draw(t, "mode") {
	case 0, 1, 2:
		c := c09Case{Mode: "client", Stream: rapid.Bool().Draw(t, "stream"), StaleMD: rapid.SampledFrom([]string{"", "", "", "1H", "5S", "1n"}).Draw(t, "stalemd")}
		if rapid.IntRange(0, 9).Draw(t, "nodl") == 0 {
			c.NoDL = true
			return c
		}
		// log-uniform 50us .. 10 years
		exp := rapid.Float64Range(math.Log(50e3), math.Log(10*365*24*3600e9)).Draw(t, "log-remaining")
		c.RemainNs = int64(math.Exp(exp))
		if rapid.IntRange(0, 3).Draw(t, "secondcall") == 0 {
			c.GapUs = rapid.SampledFrom([]int{1500, 3000, 7000}).Draw(t, "gapus")
		}
		return c
	case 3:
		c := c09Case{Mode: "e2e", Stream: rapid.Bool().Draw(t, "stream"), Carrier: rapid.SampledFrom([]string{cHTTP, cHTTPMux, cHTTPPer}).Draw(t, "carrier"), StaleMD: rapid.SampledFrom([]string{"", "", "1H", "99999999H"}).Draw(t, "stalemd")}
		if rapid.IntRange(0, 5).Draw(t, "nodl") == 0 {
			c.NoDL = true
			return c
		}
		exp := rapid.Float64Range(math.Log(200e3), math.Log(10*365*24*3600e9)).Draw(t, "log-remaining")
		c.RemainNs = int64(math.Exp(exp))
		if rapid.IntRange(0, 3).Draw(t, "slowcreds") == 0 {
			c.CredUs = rapid.SampledFrom([]int{3000, 8000, 20000}).Draw(t, "credus")
			if c.RemainNs < int64(time.Second) {
				c.RemainNs += int64(time.Second)
			}
		}
		return c
	}
	c := c09Case{Mode: "server", Stream: rapid.Bool().Draw(t, "stream"), Carrier: rapid.SampledFrom([]string{cHTTP, cHTTPMux, cHTTPPer}).Draw(t, "carrier"), HasHdr: true}
	if rapid.IntRange(0, 19).Draw(t, "nohdr") == 0 {
		c.HasHdr = false
		return c
	}
	c.Header = genTimeoutHeader(t)
	if rapid.IntRange(0, 4).Draw(t, "parentdl") == 0 {
		c.ParentNs = int64(rapid.SampledFrom([]time.Duration{30 * time.Second, time.Hour, 100 * 365 * 24 * time.Hour}).Draw(t, "parent"))
	}
	return c
}

func init() { registerReplay("C09", propC09) }

const c09Rule = "rapid-generated: (client) remaining durations log-uniform 50us..10y or no deadline, GRPC-Timeout captured by a recording RoundTripper for Invoke and NewStream, oracle max(1,floor((D-t1)/ms)) <= v <= max(1,floor((D-t0)/ms)); " +
	"(server) GRPC-Timeout strings from a grammar (1-8 digits x 6 units, 9-19 digits, >int64, int64 edge values per unit, signs, spaces, missing/bad units, junk) against the real handlers via httptest, oracle: well-formed non-negative value => handler deadline within [start+sat(v*unit)-50us, handlerEntry+sat(v*unit)] with saturating arithmetic, never a panic or 5xx; " +
	"also generated since the seeded rounds: grpc-timeout already present in the caller's outgoing metadata, request contexts with their own (laxer or stricter) deadline, per-RPC credentials whose callback takes 3..20 ms (transit counted from its return); " +
	"(e2e) caller deadline vs handler deadline over an in-memory net/http round trip, one-sided bounds of 1 ms + transit; an overlap mode (2..4 calls with deadlines whole seconds apart started back to back on one channel, the transport reading each request's header only after all were started: each carries the time left to its own deadline); non-trivial = unit != m, >=7 digits, malformed, no deadline, remaining < 1 ms or > 1 h; distinct by case hash"

func TestC09(t *testing.T) {
	runProp(t, "C09", c09Rule, genC09, propC09)
}

// FuzzTimeoutHeader: coverage-guided search over GRPC-Timeout header values.
func FuzzTimeoutHeader(f *testing.F) {
	for _, s := range []string{"", "1m", "99999999H", "9223372036854775807n", "-1S", "5", "H", " 5m", "18446744073709551616u", "0n"} {
		f.Add(s, false)
		f.Add(s, true)
	}
	f.Fuzz(func(t *testing.T, h string, stream bool) {
		for _, b := range []byte(h) {
			if b < 0x20 || b == 0x7f {
				return // not a legal HTTP header value; net/http would not deliver it
			}
		}
		c := c09Case{Mode: "server", Stream: stream, Carrier: cHTTP, HasHdr: true, Header: h}
		if o := propC09(c); o.Fail != "" {
			t.Fatalf("C09: %s", o.Fail)
		}
	})
}
