package harness

// Reference encoder/decoder for the documented gRPC-over-HTTP/1.1 stream body format
// (httpgrpc/doc.go): a sequence of frames, each a 4-byte big-endian signed length followed
// by that many bytes; a negative length marks the final frame, an HttpTrailer message.
// Written from the documentation; shares no code with httpgrpc/io.go.

import (
	"encoding/binary"
	"errors"

	"google.golang.org/protobuf/proto"

	"github.com/fullstorydev/grpchan/httpgrpc"
)

const wireMaxMessage = 100 * 1024 * 1024

func appendFrame(b []byte, payload []byte, end bool) []byte {
	n := int32(len(payload))
	if end {
		n = -n
	}
	var p [4]byte
	binary.BigEndian.PutUint32(p[:], uint32(n))
	b = append(b, p[:]...)
	return append(b, payload...)
}

func mustMarshal(m proto.Message) []byte {
	b, err := proto.MarshalOptions{Deterministic: true}.Marshal(m)
	if err != nil {
		panic(err)
	}
	return b
}

// encodeStream encodes messages followed (if tr != nil) by the trailer frame.
func encodeStream(msgs []proto.Message, tr *httpgrpc.HttpTrailer) []byte {
	var b []byte
	for _, m := range msgs {
		b = appendFrame(b, mustMarshal(m), false)
	}
	if tr != nil {
		b = appendFrame(b, mustMarshal(tr), true)
	}
	return b
}

// refDecoded is what the reference decoder makes of a body.
type refDecoded struct {
	Frames      [][]byte // complete data frames, in order
	Trailer     []byte   // payload of the trailer frame if complete
	HasTrailer  bool
	TrailerOK   bool // trailer payload parses as HttpTrailer
	TrailerMsg  *httpgrpc.HttpTrailer
	Err         error // framing error (truncated, oversized)
	Rest        int   // bytes after the trailer frame
	Oversized   bool
	TruncatedAt int // offset of the incomplete frame, -1 if none
}

var errRefTruncated = errors.New("ref: truncated frame")
var errRefOversized = errors.New("ref: frame exceeds limit")
var errRefNoTrailer = errors.New("ref: body ended without trailer frame")

func refDecode(body []byte) refDecoded {
	d := refDecoded{TruncatedAt: -1}
	off := 0
	for {
		if off == len(body) {
			d.Err = errRefNoTrailer
			return d
		}
		if len(body)-off < 4 {
			d.Err, d.TruncatedAt = errRefTruncated, off
			return d
		}
		n := int32(binary.BigEndian.Uint32(body[off:]))
		end := n < 0
		sz := int64(n)
		if end {
			sz = -sz
		}
		if sz > wireMaxMessage {
			d.Err, d.Oversized = errRefOversized, true
			return d
		}
		if int64(len(body)-off-4) < sz {
			d.Err, d.TruncatedAt = errRefTruncated, off
			return d
		}
		payload := body[off+4 : off+4+int(sz)]
		off += 4 + int(sz)
		if end {
			d.HasTrailer, d.Trailer = true, payload
			var tr httpgrpc.HttpTrailer
			if proto.Unmarshal(payload, &tr) == nil {
				d.TrailerOK, d.TrailerMsg = true, &tr
			}
			d.Rest = len(body) - off
			return d
		}
		d.Frames = append(d.Frames, payload)
	}
}
