#!/usr/bin/env python3
"""Regenerates /verif/seeded/INDEX.md from the meta.json files."""
import json, glob, os
rows = []
for mp in sorted(glob.glob('/verif/seeded/*/meta.json')):
    m = json.load(open(mp))
    d = os.path.dirname(mp)
    needs = ''
    rd = os.path.join(d, 'README.md')
    caught = [c for c, r in m.get('checks_run', {}).items() if r['verdict'] == 'caught']
    missed = [c for c, r in m.get('checks_run', {}).items() if r['verdict'] == 'missed']
    rows.append((m['seed_id'], m['property'], 'yes' if m.get('vetted') else 'NO', ', '.join(sorted(caught)) or '-', ', '.join(sorted(missed)) or '-', m.get('summary', '')))
out = ['# Independently seeded breaking changes', '',
       'Each directory holds `patch.diff` (against /repo HEAD), the demonstration test (`*.go.txt`, its intended path is in its first lines), the author\'s `README.md` and `meta.json` (what was run when vetting it, and which checks were run against it with what result).',
       'Vetting = on a scratch worktree: demonstration passes on the clean tree; patch applies; build, vet and the repository\'s own tests pass with the patch; demonstration fails with the patch.', '',
       '| seed | property | vetted | caught by (quick tier) | run and missed | what it needs to manifest |', '|---|---|---|---|---|---|']
for r in rows:
    out.append('| %s | %s | %s | %s | %s | %s |' % r)
open('/verif/seeded/INDEX.md', 'w').write('\n'.join(out) + '\n')
print('\n'.join(out[6:]))
