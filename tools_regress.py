#!/usr/bin/env python3
"""Regression over the whole seeded corpus: every vetted seed against the check(s) recorded as catching it.

  tools_regress.py [seed-glob ...]      (default: all)

For each seed: apply patch to /repo, run the catching checks (quick tier), restore /repo. Prints one line per
seed and a summary; does not modify meta.json. Exit 1 if some seed is no longer caught by any of its checks.
"""
import glob, json, os, subprocess, sys, shutil, time

def sh(cmd, cwd=None, timeout=3600):
    p = subprocess.run(cmd, shell=True, cwd=cwd, stdout=subprocess.PIPE, stderr=subprocess.STDOUT, text=True, timeout=timeout)
    return p.returncode, p.stdout

def main():
    pats = sys.argv[1:] or ["*"]
    dirs = []
    for p in pats:
        dirs += sorted(glob.glob(os.path.join("/verif/seeded", p)))
    lost, n = [], 0
    for d in dirs:
        mp = os.path.join(d, "meta.json")
        if not os.path.exists(mp):
            continue
        m = json.load(open(mp))
        if not m.get("vetted"):
            continue
        checks = [c for c, r in m.get("checks_run", {}).items() if r["verdict"] == "caught"]
        if not checks:
            continue
        rc, out = sh("git -C /repo status --porcelain")
        if out.strip():
            print("/repo not clean"); return 2
        rc, out = sh("git -C /repo apply %s/patch.diff" % d)
        if rc != 0:
            print(os.path.basename(d), "PATCH-DOES-NOT-APPLY"); lost.append(os.path.basename(d)); continue
        n += 1
        ok = False
        t0 = time.time()
        try:
            for c in checks:
                rc, out = sh("/verif/check %s quick" % c, cwd="/verif")
                if rc == 1:
                    ok = True
                    break
        finally:
            sh("git -C /repo checkout -- . && git -C /repo clean -fdq")
            shutil.rmtree("/verif/replays", ignore_errors=True)
        print(os.path.basename(d), "caught" if ok else "LOST", ",".join(checks), "%.0fs" % (time.time() - t0), flush=True)
        if not ok:
            lost.append(os.path.basename(d))
    print("seeds run: %d, no longer caught: %d %s" % (n, len(lost), lost))
    return 1 if lost else 0

if __name__ == "__main__":
    sys.exit(main())
